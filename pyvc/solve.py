"""Second-opinion solvers on SMT-LIB dumps (/usr/bin/z3 4.8.12, /usr/bin/cvc5 1.0.3)."""
import os
import subprocess
import tempfile
import time


def _cli_check(smt2: str, tool: str, timeout_s: int, cancel=None):
    """cancel: optional object with .deadline (absolute time or None) that another thread may set
    to cut this run short (used by the portfolio once the other solver has decided)."""
    with tempfile.NamedTemporaryFile("w", suffix=".smt2", delete=False) as f:
        f.write(smt2)
        path = f.name
    try:
        if tool == "cvc5":
            cmd = ["/usr/bin/cvc5", "--strings-exp", f"--tlimit={timeout_s * 1000}", path]
        else:
            cmd = ["/usr/bin/z3", f"-T:{timeout_s}", path]
        t0 = time.time()
        res = "unknown"
        p = subprocess.Popen(cmd, stdout=subprocess.PIPE, stderr=subprocess.DEVNULL, text=True)
        try:
            while True:
                try:
                    out, _ = p.communicate(timeout=0.2)
                    lines = out.strip().splitlines()
                    res = lines[0].strip() if lines else "unknown"
                    break
                except subprocess.TimeoutExpired:
                    now = time.time()
                    if now - t0 > timeout_s + 5 or (cancel is not None and cancel.deadline is not None and now > cancel.deadline):
                        p.kill()
                        p.communicate()
                        break
        finally:
            if p.poll() is None:
                p.kill()
        ms = (time.time() - t0) * 1000
        if res not in ("sat", "unsat"):
            res = "unknown"
        return res, ms
    finally:
        os.unlink(path)
