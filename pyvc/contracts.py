"""Contract database: sidecar contract files are parsed (never executed) by the prover.

A contract file is ordinary Python:

    value_classes = ["hugr.hugr.node_port.Node", ...]          # frozen dataclasses as records
    field_types   = {"hugr.utils.BiMap.fwd": "Dict[L, R]"}     # overrides of annotations
    class_aliases = {"BiMap": "hugr.utils.BiMap"}

    @spec
    def bimap_inv(bm): return forall(...)

    @contract("hugr.utils.BiMap.insert_left", props=["C18"])
    class insert_left:
        types = {"key": "L", "value": "R"}          # optional, default: the real annotations
        returns = "NoneT"
        def requires(self, key, value): return bimap_inv(self)
        def modifies(self, key, value): return [self.fwd, self.bck]
        def raises(self, key, value): return {KeyError: ...}   # raised exactly when
        def ensures(self, key, value, result): return {"P_view": ..., "inv": ...}
        def loop_1(self, i, acc): return {"inv": ..., "decreases": ...}
"""
from __future__ import annotations

import ast
import os
from typing import Optional

import z3

from .builtins import Builtins
from .evalx import _SpecFunc
from .externals import Externals
from .front import FuncInfo, World
from .interp import Frame, RaiseSig, Unsupported
from .loops import Loops
from .specb import SpecBuiltins
from .tys import (NONE, SV, PyList, PyTuple, Ref, TBool, TNone, TObj, TOpt, TRec, VExc, Ty)
from .typesdb import TypeDB


class Contract:
    def __init__(self, target: str, module: str, node: ast.ClassDef, props, path):
        self.target = target
        self.module = module
        self.node = node
        self.props = props
        self.path = path
        self.types: dict[str, str] = {}
        self.returns: Optional[str] = None
        self.inline = False
        self.pure_inline = False
        self.exact_self = True
        self.self_class: Optional[str] = None
        self.requires = None
        self.ensures = None
        self.raises = None
        self.raises_ensures = None
        self.modifies = None
        self.loops: dict[int, list] = {}
        self.trusted = False  # assume_external: the body is not verified
        self.interface = False  # contract of a protocol / base method used for calls on non-exact receivers
        self.name = node.name
        self.ghost_def = False  # interface contract whose ensures only *define* ghost functions of the receiver: holds for every implementation
        self.may_raise: list = []  # exceptions the function may raise under an unspecified condition (outside the contract's domain)
        # {callee qualified name: [ensures clause names]}: inside this function only the listed postconditions of
        # that callee are assumed after a call (assuming fewer postconditions is always sound; it keeps the
        # solver's context small - the callee may state a clause in an opaque form for this purpose)
        self.callee_clauses: dict = {}
        # the function returns an object it has created: at call sites the result is a newly allocated object (distinct
        # from every object alive before the call); at the definition "the result was not alive in the pre-state" is an obligation
        self.fresh_result = False
        for st in node.body:
            if isinstance(st, ast.FunctionDef):
                if st.name in ("requires", "ensures", "raises", "modifies", "raises_ensures"):
                    setattr(self, st.name, st)
                elif st.name.startswith("loop_"):
                    # loop_<ordinal>[_<tag>]: alternatives for the same loop, tried in order; the first one
                    # whose parameters are all locals at the loop head is used
                    parts = st.name.split("_")
                    self.loops.setdefault(int(parts[1]), []).append(st)
            elif isinstance(st, ast.Assign) and len(st.targets) == 1 and isinstance(st.targets[0], ast.Name):
                n = st.targets[0].id
                if n == "types":
                    self.types = ast.literal_eval(st.value)
                elif n in ("returns", "self_class", "may_raise", "callee_clauses"):
                    setattr(self, n, ast.literal_eval(st.value))
                elif n in ("inline", "pure_inline", "exact_self", "trusted", "interface", "ghost_def", "fresh_result"):
                    setattr(self, n, bool(ast.literal_eval(st.value)))

    def text_hash(self):
        import hashlib
        return hashlib.sha256(ast.dump(self.node).encode()).hexdigest()[:16]


class ContractDB:
    def __init__(self, world: World):
        self.w = world
        self.types = TypeDB(world, self)
        self.builtins = Builtins(self)
        self.specb = SpecBuiltins(self)
        self.loops = Loops(self)
        self.externals = Externals(self)
        self.contracts: dict[str, Contract] = {}
        self.variants: dict[str, list] = {}
        self.all_contracts: dict[str, Contract] = {}
        self.specs: dict[str, _SpecFunc] = {}
        self.aliases: dict[str, str] = {}
        self.type_aliases: dict[str, str] = {}
        self.typevar_bindings: dict[str, str] = {}
        self.lemmas: dict[str, tuple] = {}
        self.code_lemmas: dict[str, tuple] = {}
        self.files: list[str] = []
        self.module_asts: dict[str, ast.Module] = {}

    # ------------------------------------------------------------------ loading
    def load_file(self, path: str):
        src = open(path).read()
        tree = ast.parse(src, filename=path)
        modname = "contracts." + os.path.basename(path)[:-3]
        self.files.append(path)
        self.module_asts[modname] = tree
        for st in tree.body:
            if isinstance(st, ast.Assign) and len(st.targets) == 1 and isinstance(st.targets[0], ast.Name):
                n = st.targets[0].id
                if n == "value_classes":
                    self.types.value_classes |= set(ast.literal_eval(st.value))
                elif n == "field_types":
                    for k, v in ast.literal_eval(st.value).items():
                        owner, f = k.rsplit(".", 1)
                        self.types.field_overrides[(owner, f)] = v
                elif n == "extra_fields":
                    for k, v in ast.literal_eval(st.value).items():
                        owner, f = k.rsplit(".", 1)
                        self.types.extra_fields[(owner, f)] = v
                elif n == "ordered_dict_fields":
                    for k in ast.literal_eval(st.value):
                        owner, f = k.rsplit(".", 1)
                        self.types.ordered_dict_fields.add((owner, f))
                elif n == "class_aliases":
                    self.aliases.update(ast.literal_eval(st.value))
                elif n == "type_aliases":
                    self.type_aliases.update(ast.literal_eval(st.value))
                elif n == "typevar_bindings":
                    self.typevar_bindings.update(ast.literal_eval(st.value))
            elif isinstance(st, ast.FunctionDef):
                decos = [ast.unparse(d) for d in st.decorator_list]
                if any(d.startswith("spec") for d in decos):
                    self.specs[st.name] = _SpecFunc(st.name, modname, st)
                elif any(d.startswith("code_lemma") for d in decos):
                    self.code_lemmas[st.name] = (modname, st)
                elif any(d.startswith("lemma") for d in decos):
                    self.lemmas[st.name] = (modname, st)
            elif isinstance(st, ast.ClassDef):
                for d in st.decorator_list:
                    if isinstance(d, ast.Call) and getattr(d.func, "id", "") == "contract":
                        target = ast.literal_eval(d.args[0])
                        props = []
                        for kw in d.keywords:
                            if kw.arg == "props":
                                props = ast.literal_eval(kw.value)
                        c = Contract(target, modname, st, props, path)
                        if "#" in target:
                            self.variants.setdefault(target.split("#")[0], []).append(c)
                        else:
                            self.contracts[target] = c
                        self.all_contracts[target] = c

    def interface_contract(self, cls: str, attr: str):
        """(declaring class, contract) of an interface contract covering `attr` on receivers of static class cls."""
        for q in self.w.mro(cls):
            c = self.contracts.get(f"{q}.{attr}")
            if c is not None and c.interface:
                return q, c
        return None

    def class_alias(self, n: str) -> Optional[str]:
        if n in self.aliases:
            return self.aliases[n]
        return None

    def spec_func(self, n: str):
        return self.specs.get(n)

    def type_override(self, module, ann):
        return None

    def contract_for(self, fi: FuncInfo, recv_cls: Optional[str] = None, args=None, kwargs=None) -> Optional[Contract]:
        keys = []
        if recv_cls is not None and fi.cls is not None:
            keys.append(f"{recv_cls}.{fi.name}")
        keys.append(fi.qname)
        for k in keys:
            if k in self.contracts:
                return self.contracts[k]
            vs = self.variants.get(k)
            if vs:
                if args is None:
                    return vs[0]
                return self.select_variant(vs, fi, args, kwargs or {})
        return None

    def select_variant(self, cands, fi: FuncInfo, args, kwargs):
        from .tys import VSlice, TInt, TBool, TSeq, TTuple
        a = fi.node.args
        names = [p.arg for p in a.posonlyargs + a.args]
        bound = dict(zip(names, args))
        bound.update(kwargs)

        def matches(tstr, v):
            if tstr == "Slice":
                return isinstance(v, VSlice)
            if isinstance(v, VSlice):
                return False
            if tstr in ("int", "Opt[int]"):
                return isinstance(v, SV) and (v.ty in (TInt, TBool) or (isinstance(v.ty, TOpt) and v.ty.inner is TInt))
            if tstr.startswith("TupSeq") or tstr.startswith("Tup["):
                return isinstance(v, PyTuple) or (isinstance(v, SV) and (isinstance(v.ty, TTuple) or (isinstance(v.ty, TSeq) and v.ty.tuple_)))
            return True
        for c in cands:
            if all(matches(t, bound[n]) for n, t in c.types.items() if n in bound):
                return c
        raise Unsupported(f"no contract variant of {fi.qname} matches the arguments")

    # ------------------------------------------------------------------ clause evaluation
    def eval_clauses_fn(self, it, fn: ast.FunctionDef, fr: Frame, raw=False):
        """Run a contract function body (pure) and return [(name, term)]."""
        body = fn.body
        for i, st in enumerate(body):
            if isinstance(st, ast.Expr) and isinstance(st.value, ast.Constant):
                continue
            if isinstance(st, ast.Assign) and len(st.targets) == 1 and isinstance(st.targets[0], ast.Name):
                fr.env[st.targets[0].id] = it.eval(st.value, fr)
                continue
            if isinstance(st, ast.Return):
                return self.clauses_of_expr(it, st.value, fr, raw)
            raise Unsupported(f"statement {type(st).__name__} in contract function {fn.name}")
        return []

    def clauses_of_expr(self, it, e, fr, raw=False):
        out = []
        if isinstance(e, ast.Dict):
            for k, v in zip(e.keys, e.values):
                if isinstance(k, ast.Constant):
                    name = str(k.value)
                else:
                    name = ast.unparse(k)
                if isinstance(v, ast.BoolOp) and isinstance(v.op, ast.And) and name != "decreases" and not raw:
                    # a conjunction is split into one obligation per conjunct (simple conjuncts can then
                    # be refuted with a model even when a quantified sibling is beyond the solver)
                    for ci, cj in enumerate(v.values):
                        out.append((f"{name}#{ci}", self.as_bool(it, it.eval(cj, fr), fr, name)))
                    continue
                val = it.eval(v, fr)
                out.append((name, val if raw and name == "decreases" else self.as_bool(it, val, fr, name)))
        elif isinstance(e, (ast.List, ast.Tuple)):
            for i, v in enumerate(e.elts):
                out.append((f"c{i}", self.as_bool(it, it.eval(v, fr), fr)))
        else:
            out.append(("c0", self.as_bool(it, it.eval(e, fr), fr)))
        if raw:
            return [(n, (t.term if isinstance(t, SV) else t)) for n, t in out]
        return out

    def as_bool(self, it, v, fr, name=""):
        if name == "decreases":
            return v.term
        return it.truthy(v, fr)

    def clauses(self, it, r, fn, raw=False):
        # used by loops: r is unused, evaluation happens through eval_clauses_fn
        raise NotImplementedError

    # ------------------------------------------------------------------ parameters
    def param_types(self, it, con: Optional[Contract], fi: FuncInfo, recv_cls: Optional[str]) -> dict:
        a = fi.node.args
        out = {}
        params = a.posonlyargs + a.args + a.kwonlyargs
        for i, p in enumerate(params):
            n = p.arg
            if con is not None and n in con.types:
                out[n] = self.types.parse_ty(con.types[n])
                continue
            if i == 0 and fi.cls is not None and fi.kind in ("method", "property", "cached_property"):
                cls = recv_cls or (con.self_class if con is not None and con.self_class else f"{fi.module}.{fi.cls}")
                t = self.types.class_ty(cls)
                if isinstance(t, TObj) and (con is None or con.exact_self):
                    ci = self.w.get_class(cls)
                    if not ci.is_protocol:
                        t = TObj(cls, exact=True)
                out[n] = t
                continue
            if i == 0 and fi.kind == "classmethod":
                out[n] = None
                continue
            if p.annotation is None:
                raise Unsupported(f"parameter {n} of {fi.qname} has no annotation and no contract type")
            out[n] = self.types.ann_to_ty(fi.module, p.annotation)
        if a.vararg is not None:
            n = a.vararg.arg
            if con is not None and n in con.types:
                out[n] = self.types.parse_ty(con.types[n])
            else:
                from .tys import TSeq
                out[n] = TSeq(self.types.ann_to_ty(fi.module, a.vararg.annotation), tuple_=True)
        return out

    def return_type(self, it, con: Optional[Contract], fi: FuncInfo) -> Optional[Ty]:
        if con is not None and con.returns is not None:
            return self.types.parse_ty(con.returns)
        if fi.node.returns is None:
            return None
        return self.types.ann_to_ty(fi.module, fi.node.returns)

    # ------------------------------------------------------------------ applying a contract at a call site
    def contract_frame(self, it, con: Contract, env: dict, fr: Frame, old_heap=None, old_env=None) -> Frame:
        nfr = Frame(con.module, pure=True)
        nfr.contract = con
        nfr.env = dict(env)
        nfr.ghost = {}
        nfr.old_heap = old_heap
        nfr.old_env = old_env
        nfr.heap_override = fr.heap_override if fr is not None else None
        return nfr

    def fn_env(self, fn: ast.FunctionDef, env: dict) -> dict:
        out = {}
        for a in fn.args.args:
            if a.arg in env:
                out[a.arg] = env[a.arg]
            elif a.arg in ("old",):
                continue
            else:
                raise Unsupported(f"contract function {fn.name}: unknown parameter {a.arg}")
        return out

    def modifies_list(self, it, con: Contract, env: dict, fr: Frame):
        """[(obj term or None (=all objects), owner, field)]"""
        if con.modifies is None:
            return []
        nfr = self.contract_frame(it, con, self.fn_env(con.modifies, env), fr)
        out = []
        ret = None
        for st in con.modifies.body:
            if isinstance(st, ast.Return):
                ret = st.value
            elif isinstance(st, ast.Assign):
                nfr.env[st.targets[0].id] = it.eval(st.value, nfr)
        if ret is None:
            return []
        elts = ret.elts if isinstance(ret, (ast.List, ast.Tuple)) else [ret]
        for e in elts:
            if isinstance(e, ast.Constant) and isinstance(e.value, str):
                # "hugr.x.Class.field": any object
                owner, f = e.value.rsplit(".", 1)
                out.append((None, owner, f))
                continue
            if not isinstance(e, ast.Attribute):
                raise Unsupported("modifies entries must be obj.field")
            obj = it.eval(e.value, nfr)
            if isinstance(obj, SV) and isinstance(obj.ty, TOpt):
                obj = SV(obj.ty.inner, obj.ty.val(obj.term))
            if not (isinstance(obj, SV) and isinstance(obj.ty, TObj)):
                raise Unsupported(f"modifies on non-object {obj}")
            owner = it.field_owner(obj.ty.cls, e.attr)
            if owner is None:
                raise Unsupported(f"modifies: unknown field {obj.ty.cls}.{e.attr}")
            out.append((obj.term, owner, e.attr))
        return out

    def apply_contract(self, it, con: Contract, fi: FuncInfo, args, kwargs, fr: Frame):
        env = it.bind_args(fi, args, dict(kwargs), fr)
        ptys = self.param_types(it, con, fi, None)
        for n, t in ptys.items():
            if t is not None and n in env and not (n == "self"):
                try:
                    v = env[n]
                    from .tys import TUnion as _TU
                    if isinstance(v, SV) and isinstance(v.ty, (TOpt, _TU)) and not isinstance(t, (TOpt, _TU)) and not fr.pure:
                        v = it.force(v, fr)
                        env[n] = v
                    if isinstance(v, (PyList, PyTuple)) or (isinstance(v, SV) and v.ty != t):
                        env[n] = it.coerce(it.cdb.builtins.literal_as(it, v, t, fr), t)
                except Unsupported:
                    pass
        it.notes.add(f"call of {fi.qname} by contract {con.name}")
        if fr.pure:
            # in specifications only the result description is used
            return self.apply_contract_pure(it, con, fi, env, fr)
        # precondition
        if con.requires is not None:
            nfr = self.contract_frame(it, con, self.fn_env(con.requires, env), fr)
            for name, term in self.eval_clauses_fn(it, con.requires, nfr):
                if name.startswith("A_"):
                    # instance of a ghost function's defining property: assumed, not an obligation
                    it.notes.add(f"ghost definition instance assumed: {name} (contract {con.name})")
                    it.assume(term)
                    continue
                it.oblige(f"call:{fi.qname}/pre:{name}", term, "callpre", site=("callpre", fi.qname, name, id(con)))
        # exceptional outcomes (decided in the pre-state)
        if con.raises is not None:
            nfr = self.contract_frame(it, con, self.fn_env(con.raises, env), fr)
            for exc_name, cond in self.raise_clauses(it, con, nfr):
                if it.branch(cond):
                    raise RaiseSig(self.mk_exc(it, exc_name, con))
        for exc_name in con.may_raise:
            # raised under a condition the contract leaves open: both outcomes are explored
            if it.branch(it.fresh_plain("may_raise_" + exc_name, z3.BoolSort())):
                raise RaiseSig(self.mk_exc(it, exc_name, con))
        old_heap = it.snapshot()
        mods = self.modifies_list(it, con, env, fr)
        for (obj, owner, f) in mods:
            m = it.heap_map(owner, f)
            ty = it.field_ty(owner, f)
            if obj is None:
                it.heap[(owner, f)] = it.fresh(f"hc_{f}", m.sort())
            else:
                it.heap[(owner, f)] = z3.Store(m, obj, it.fresh(f"hc_{f}", ty.sort()))
        rty = self.return_type(it, con, fi)
        if rty is None or rty is TNone:
            result = NONE
        elif con.fresh_result and isinstance(rty, TObj):
            fresh = it.alloc(rty.cls)
            result = it.assume_wf(SV(rty, fresh.term))
            it.notes.add(f"result of {fi.qname} is a newly allocated object (contract {con.name}: fresh_result)")
        else:
            result = it.assume_wf(it.fresh_sv("res_" + fi.name, rty))
        if con.ensures is not None:
            e2 = dict(env)
            e2["result"] = result
            nfr = self.contract_frame(it, con, self.fn_env(con.ensures, e2), fr, old_heap=old_heap, old_env=env)
            sel = getattr(fr.contract, "callee_clauses", {}).get(fi.qname) if getattr(fr, "contract", None) is not None else None
            facts = []
            for name, term in self.eval_clauses_fn(it, con.ensures, nfr):
                if name.startswith("D_"):
                    continue        # unfolding of an opaque definition, local to the callee's own proof
                if sel is not None and name.split("#")[0] not in sel:
                    it.notes.add(f"postcondition {name} of {fi.qname} not used in this function (callee_clauses)")
                    continue
                facts.append(term)
            it.assume_all_checked(facts, f"the postcondition of {fi.qname} (contract {con.name})")
        self._assume_ghost_defs(it, con, fi, env, result, fr, old_heap)
        return result

    def _assume_ghost_defs(self, it, con, fi, env, result, fr, old_heap):
        """An interface contract marked ghost_def defines ghost functions of the receiver as 'whatever this
        method reports'; the definition holds for every implementation, so it is also available after
        a call that was resolved to a class-specific contract."""
        if con.interface or fi.cls is None or "self" not in env:
            return
        ic = self.interface_contract(f"{fi.module}.{fi.cls}", fi.name)
        if ic is None or not ic[1].ghost_def or ic[1].ensures is None or ic[1] is con:
            return
        icon = ic[1]
        e2 = {k: v for k, v in env.items()}
        e2["result"] = result
        try:
            nfr = self.contract_frame(it, icon, self.fn_env(icon.ensures, e2), fr, old_heap=old_heap, old_env=env)
            for name, term in self.eval_clauses_fn(it, icon.ensures, nfr):
                it.assume(term)
            it.notes.add(f"ghost definitions of interface contract {icon.name} assumed for implementation {fi.qname}")
        except Unsupported:
            pass

    def apply_contract_pure(self, it, con, fi, env, fr):
        if getattr(fr, "pure_code", False):
            # real code evaluated purely (comprehension element on a generic index): the callee's
            # precondition and "does not raise" become obligations quantified over the binders
            if con.requires is not None:
                nfr = self.contract_frame(it, con, self.fn_env(con.requires, env), fr)
                for name, term in self.eval_clauses_fn(it, con.requires, nfr):
                    it.oblige_pure(f"purecall:{fi.qname}/pre:{name}", term, site=("ppre", fi.qname, name))
            if con.raises is not None:
                nfr = self.contract_frame(it, con, self.fn_env(con.raises, env), fr)
                for exc_name, cond in self.raise_clauses(it, con, nfr):
                    rc = getattr(it, "raise_collect", None)
                    if rc is not None and len(it.pure_ctx) == 1:
                        rc.append((exc_name, z3.And(*it.pure_extra, cond) if it.pure_extra else cond, con))
                    else:
                        it.oblige_pure(f"purecall:{fi.qname}/no-raise:{exc_name}", z3.Not(cond), site=("praise", fi.qname, exc_name))
        rty = self.return_type(it, con, fi)
        if rty is None or rty is TNone:
            return NONE
        # deterministic result: an uninterpreted function of the arguments is not available in
        # general; use the ensures clauses on a fresh result
        result = it.fresh_sv("pres_" + fi.name, rty)
        if con.ensures is not None:
            e2 = dict(env)
            e2["result"] = result
            heap = fr.heap_override
            nfr = self.contract_frame(it, con, self.fn_env(con.ensures, e2), fr, old_heap=heap if heap is not None else it.heap, old_env=env)
            for name, term in self.eval_clauses_fn(it, con.ensures, nfr):
                it.assume(term)
        heap = fr.heap_override
        self._assume_ghost_defs(it, con, fi, env, result, fr, heap if heap is not None else it.heap)
        return result

    def raise_clauses(self, it, con: Contract, nfr: Frame):
        out = []
        for st in con.raises.body:
            if isinstance(st, ast.Assign):
                nfr.env[st.targets[0].id] = it.eval(st.value, nfr)
            elif isinstance(st, ast.Return):
                if not isinstance(st.value, ast.Dict):
                    raise Unsupported("raises must return a dict {Exc: condition}")
                for k, v in zip(st.value.keys, st.value.values):
                    out.append((ast.unparse(k), it.truthy(it.eval(v, nfr), nfr)))
        return out

    def mk_exc(self, it, exc_name: str, con: Contract) -> VExc:
        from .interp import BUILTIN_EXC_BASES
        if exc_name in BUILTIN_EXC_BASES:
            return VExc(exc_name)
        q = self.aliases.get(exc_name, exc_name)
        ci = self.w.get_class(q)
        if ci is None:
            raise Unsupported(f"unknown exception {exc_name} in contract {con.name}")
        return VExc(q, [], ci)

    def exc_name_matches(self, it, exc: VExc, exc_name: str) -> bool:
        from .interp import BUILTIN_EXC_BASES
        if exc_name in BUILTIN_EXC_BASES:
            return it.exc_isinstance(exc, exc_name)
        q = self.aliases.get(exc_name, exc_name)
        return it.exc_isinstance(exc, q)

    # ------------------------------------------------------------------ effects of calls inside loops
    def static_type(self, it, e, fr):
        """Static type of a receiver expression built from locals, fields and subscripts (None: unknown).
        obj[...] on an object with a contract for __getitem__ has that contract's return type."""
        from .tys import TSeq as _S, TDict as _D
        try:
            if isinstance(e, ast.Name):
                v = fr.env.get(e.id)
                return it.val_ty(v) if isinstance(v, (SV, PyList, PyTuple)) else None
            if isinstance(e, ast.Attribute):
                b = self.static_type(it, e.value, fr)
                if isinstance(b, TOpt):
                    b = b.inner
                if isinstance(b, TObj):
                    owner = it.field_owner(b.cls, e.attr)
                    return it.field_ty(owner, e.attr) if owner else None
                if isinstance(b, TRec):
                    return b.fty(e.attr)
                return None
            if isinstance(e, ast.Subscript):
                b = self.static_type(it, e.value, fr)
                if isinstance(b, _S):
                    return b.elem
                if isinstance(b, _D):
                    return b.v
                if isinstance(b, TObj):
                    m = self.w.find_method(b.cls, "__getitem__")
                    if m is None:
                        return None
                    con = self.contract_for(m, b.cls)
                    return self.return_type(it, con, m) if con is not None and not con.inline else None
                return None
        except Exception:
            return None
        return None

    def call_effects(self, it, calls, fr) -> set:
        """Field names possibly written by the calls in a loop body (syntactic, transitive)."""
        out: set[str] = set()
        seen: set[str] = set()
        from .loops import assigned_in

        def static_ty(e):
            """Static type of a receiver expression built from locals, fields and subscripts."""
            try:
                if isinstance(e, ast.Name):
                    v = fr.env.get(e.id)
                    return it.val_ty(v) if v is not None else None
                if isinstance(e, ast.Attribute):
                    b = static_ty(e.value)
                    if isinstance(b, TOpt):
                        b = b.inner
                    if isinstance(b, TObj):
                        owner = it.field_owner(b.cls, e.attr)
                        return it.field_ty(owner, e.attr) if owner else None
                    if isinstance(b, TRec):
                        return b.fty(e.attr)
                    return None
                if isinstance(e, ast.Subscript):
                    b = static_ty(e.value)
                    from .tys import TSeq as _S, TDict as _D
                    if isinstance(b, _S):
                        return b.elem
                    if isinstance(b, _D):
                        return b.v
                    return None
            except Exception:
                return None
            return None

        def visit_fn(fi: FuncInfo, recv_cls=None):
            if fi.qname in seen:
                return
            seen.add(fi.qname)
            con = self.contract_for(fi, recv_cls)
            if con is not None and not con.inline:
                if con.modifies is not None:
                    for st in con.modifies.body:
                        if isinstance(st, ast.Return) and st.value is not None:
                            elts = st.value.elts if isinstance(st.value, (ast.List, ast.Tuple)) else [st.value]
                            for e in elts:
                                if isinstance(e, ast.Attribute):
                                    out.add(e.attr)
                                elif isinstance(e, ast.Constant):
                                    out.add(str(e.value).rsplit(".", 1)[-1])
                return
            a = assigned_in(fi.node.body)
            out.update(a.fields)
            for c in a.calls:
                visit_call(c, fi.module)

        def visit_call(c: ast.Call, module: str):
            f = c.func
            name = f.attr if isinstance(f, ast.Attribute) else (f.id if isinstance(f, ast.Name) else None)
            if name is None:
                return
            if isinstance(f, ast.Name):
                r = self.w.deref_const(self.w.resolve_name(module, name))
                if r is not None and r[0] == "func":
                    visit_fn(r[1])
                elif r is not None and r[0] == "class":
                    init = self.w.find_method(r[1].qname, "__init__")
                    if init is not None:
                        visit_fn(init)
                return
            # Class.method(...): the method of that class (a classmethod / static call)
            if isinstance(f.value, ast.Name) and f.value.id not in fr.env:
                r = self.w.deref_const(self.w.resolve_name(module, f.value.id))
                if r is None:
                    # a class imported inside the function body (from .mod import Class)
                    for mi in self.w.modules.values():
                        if f.value.id in mi.classes and mi.name.rsplit(".", 1)[0] == module.rsplit(".", 1)[0]:
                            r = ("class", mi.classes[f.value.id])
                            break
                if r is not None and r[0] == "class":
                    m = self.w.find_method(r[1].qname, name)
                    if m is not None:
                        visit_fn(m, r[1].qname)
                        return
            # method call: use the static type of the receiver where it is known
            rty = static_ty(f.value) if module == fr.module else None
            from .tys import TSeq as _S, TDict as _D, TSet as _T, TStr as _Str, TRec as _R, TTuple as _Tu
            if isinstance(rty, (_S, _D, _T, _Tu)) or rty is _Str:
                return  # builtin container method: its effect is the mutation of the receiver (handled syntactically)
            if isinstance(rty, (TObj, _R)):
                for sub in self.w.subclasses(rty.cls):
                    m = self.w.find_method(sub, name)
                    if m is not None:
                        visit_fn(m, sub)
                return
            # unknown receiver: every method of that name in the world (closed world over-approximation)
            for mi in self.w.modules.values():
                for ci in mi.classes.values():
                    if name in ci.methods:
                        visit_fn(ci.methods[name], None)
            r = self.w.resolve_expr(module, f)
            if r is not None and r[0] == "func":
                visit_fn(r[1])

        for c in calls:
            visit_call(c, fr.module)
        return out
