"""Expression and statement semantics (the supported Python subset)."""
from __future__ import annotations

import ast
from typing import Optional

import z3

from .front import ClassInfo, FuncInfo
from .interp import seq_concat, acc
from .interp import (BreakSig, ContinueSig, Frame, Interp, PathAbort, RaiseSig, ReturnSig, Unsupported, _m,
                     BUILTIN_EXC_BASES)
from .tys import (NONE, SV, PyList, PyTuple, Ref, TAbs, TAny, TBool, TDict, TEnum, TInt, TNone, TObj, TOpt, TRec,
                  TSeq, TSet, TStr, TTuple, TUnion, Ty, VBuiltin, VClass, VExc, VFunc, VGen, VLambda, VModule,
                  VRange, VSlice)

BUILTIN_NAMES = {
    "len", "range", "min", "max", "isinstance", "str", "int", "bool", "list", "dict", "set", "tuple", "bytes",
    "bytearray", "iter", "next", "enumerate", "zip", "sum", "all", "any", "replace", "cast", "super", "repr",
    "sorted", "reversed", "map", "type", "getattr", "hasattr", "id", "print", "field", "frozenset", "abs",
    "slice", "object", "float", "NotImplemented", "Counter", "defaultdict", "chain",
}

SPEC_NAMES = {"forall", "exists", "implies", "old", "has", "get", "result", "iff", "ite", "seq_len", "fresh_in",
              "card", "is_some", "the", "select", "store", "subset", "inrange", "cls_is", "same_obj", "let",
              "dom_eq", "unchanged", "nth", "Seq", "contains", "distinct", "sub", "count_in", "spec_call", "pre",
              "image_has", "inj", "keys_of", "ghost", "concat", "empty_seq", "isNone", "notNone", "eq", "view_of",
              "kind_of", "elems", "as_list", "as_cls", "any_as", "allocated", "assume"}


class Evaluator(Interp):
    # ================================================================== expressions
    def eval(self, node: ast.expr, fr: Frame):
        m = getattr(self, "e_" + type(node).__name__, None)
        if m is None:
            raise Unsupported(f"expression {type(node).__name__} at line {getattr(node, 'lineno', '?')}")
        return m(node, fr)

    def e_Constant(self, node, fr):
        v = node.value
        if v is None:
            return NONE
        if isinstance(v, bool):
            return SV(TBool, z3.BoolVal(v))
        if isinstance(v, int):
            return SV(TInt, z3.IntVal(v))
        if isinstance(v, str):
            return SV(TStr, z3.StringVal(v))
        if isinstance(v, bytes):
            ty = TSeq(TInt, bytes_=True)
            return self.mk_seq(ty, [SV(TInt, z3.IntVal(b)) for b in v])
        if v is Ellipsis:
            return NONE
        raise Unsupported(f"constant {v!r}")

    def e_JoinedStr(self, node, fr):
        # f-string: an opaque string; formatting is assumed total (A: messages only)
        self.notes.add("f-strings are opaque strings; formatting assumed not to raise")
        parts = []
        all_const = True
        for p in node.values:
            if isinstance(p, ast.Constant):
                parts.append(z3.StringVal(p.value))
            else:
                all_const = False
        if all_const:
            return SV(TStr, seq_concat(*parts) if len(parts) > 1 else (parts[0] if parts else z3.StringVal("")))
        # plain {expr} pieces of int / bool / str values are formatted exactly (str()); anything else
        # (format specs, conversions, objects) makes the whole string opaque
        parts = []
        for p in node.values:
            if isinstance(p, ast.Constant):
                parts.append(z3.StringVal(p.value))
                continue
            if not isinstance(p, ast.FormattedValue) or p.format_spec is not None or p.conversion != -1:
                return SV(TStr, self.fresh("fstr", z3.StringSort()))
            try:
                v = self.force(self.eval(p.value, fr), fr)
            except Unsupported:
                return SV(TStr, self.fresh("fstr", z3.StringSort()))
            if isinstance(v, SV) and v.ty in (TInt, TBool, TStr):
                parts.append(self.cdb.builtins.b_str(self, [v], {}, fr).term)
            else:
                return SV(TStr, self.fresh("fstr", z3.StringSort()))
        return SV(TStr, seq_concat(*parts) if len(parts) > 1 else parts[0])

    def e_Name(self, node, fr):
        n = node.id
        if n in fr.env:
            v = fr.env[n]
            if v is _POISON:
                raise Unsupported(f"use of loop-defined variable {n} after/at loop head")
            return v
        if fr.pure and n in fr.ghost:
            return fr.ghost[n]
        return self.global_name(fr.module, n, fr)

    def global_name(self, module: str, n: str, fr: Frame):
        sp = self.cdb.spec_func(n)
        if sp is not None and (fr.pure or fr.contract is not None):
            return sp
        if module.startswith("contracts."):
            if sp is not None:
                return sp
            if n in SPEC_NAMES or n in BUILTIN_NAMES:
                return VBuiltin(n)
            if n in BUILTIN_EXC_BASES:
                return VBuiltin("exc:" + n)
            q = self.cdb.class_alias(n)
            if q is not None and self.w.get_class(q) is not None:
                return VClass(self.w.get_class(q))
            if n in self.w.modules:
                return VModule(n)
            raise Unsupported(f"unresolved name {n} in contract module {module}")
        r = self.w.resolve_name(module, n)
        r = self.w.deref_const(r)
        if r is None:
            if n in BUILTIN_EXC_BASES:
                return VBuiltin("exc:" + n)
            if n in BUILTIN_NAMES or n in SPEC_NAMES:
                return VBuiltin(n)
            if n in ("True", "False"):
                return SV(TBool, z3.BoolVal(n == "True"))
            if sp is not None:
                return sp
            raise Unsupported(f"unresolved name {n} in {module}")
        return self.from_resolved(r, fr)

    def from_resolved(self, r, fr: Frame):
        k = r[0]
        if k == "class":
            return VClass(r[1])
        if k == "func":
            return VFunc(r[1])
        if k == "module":
            return VModule(r[1])
        if k == "typevar":
            return VBuiltin("typevar:" + r[1])
        if k == "external":
            tail = r[1].rsplit(".", 1)[-1]
            if tail in BUILTIN_NAMES:
                return VBuiltin(tail)
            return VBuiltin("ext:" + r[1])
        if k == "const":
            mod, expr = r[1], r[2]
            cfr = Frame(mod, pure=fr.pure)
            cfr.heap_override = fr.heap_override
            return self.eval(expr, cfr)
        if k == "enum_member":
            ci = r[1]
            ty = self.cdb.types.enum_ty(ci.qname)
            return SV(ty, ty.member(r[2]))
        if k == "classattr":
            ci, attr = r[1], r[2]
            cfr = Frame(ci.module, pure=fr.pure)
            return self.eval(ci.class_attrs[attr], cfr)
        raise Unsupported(f"resolved kind {k}")

    def e_Attribute(self, node, fr):
        base = self.eval(node.value, fr)
        return self.apply_narrowing(node, self.getattr(base, node.attr, fr, node), fr)

    def apply_narrowing(self, node, v, fr):
        nr = getattr(fr, "narrowed", None)
        if nr and isinstance(v, SV) and isinstance(v.ty, TOpt) and nr.get(ast.dump(node)) == "<notnone>":
            return self.assume_wf(SV(v.ty.inner, acc(v.ty.val(v.term))))
        if nr and isinstance(v, SV) and isinstance(v.ty, TObj) and not v.ty.exact:
            q = nr.get(ast.dump(node))
            if q is not None and q != "<notnone>" and self.w.is_subclass(q, v.ty.cls):
                return SV(TObj(q, exact=len(self.w.subclasses(q)) == 1), v.term)
        return v

    def getattr(self, base, attr: str, fr: Frame, node=None):
        if isinstance(base, VModule):
            if base.name in self.w.modules:
                r = self.w.deref_const(self.w.resolve_name(base.name, attr))
                if r is None:
                    sub = f"{base.name}.{attr}"
                    if sub in self.w.modules:
                        return VModule(sub)
                    raise Unsupported(f"unresolved {base.name}.{attr}")
                return self.from_resolved(r, fr)
            return VBuiltin(f"ext:{base.name}.{attr}")
        if isinstance(base, VClass):
            ci = base.ci
            if ci.is_enum:
                for mn, _ in ci.enum_members:
                    if mn == attr:
                        ty = self.cdb.types.enum_ty(ci.qname)
                        return SV(ty, ty.member(mn))
            if attr == "__name__":
                return SV(TStr, z3.StringVal(ci.name))
            if attr == "__new__" and self.w.find_method(ci.qname, "__new__") is None:
                # object.__new__: cls.__new__(cls) allocates an instance without running __init__
                return VBuiltin("objnew")
            m = self.w.find_method(ci.qname, attr)
            if m is not None:
                if m.kind == "classmethod":
                    # the class the method is called on selects a class-specific contract, if there is one
                    return VFunc(m, bound=base, cls_ctx=ci.qname)
                return VFunc(m)
            if ci.is_model and attr in ("model_validate_json", "model_validate"):
                return VBuiltin("ext:pydantic." + attr, bound=ci)
            for cq in self.w.mro(ci.qname):
                c = self.w.get_class(cq)
                if c is not None and attr in c.class_attrs:
                    return self.eval(c.class_attrs[attr], Frame(c.module, pure=fr.pure))
                if c is not None and attr in c.nested:
                    return VClass(c.nested[attr])
            raise Unsupported(f"class attribute {ci.qname}.{attr}")
        if isinstance(base, VBuiltin) and base.name == "superobj":
            cur_cls, selfv = base.bound
            if cur_cls is None or selfv is None:
                raise Unsupported("super() outside a method")
            dyn = selfv.ty.cls
            mro = self.w.mro(dyn)
            after = mro[mro.index(cur_cls) + 1:] if cur_cls in mro else mro[1:]
            for q in after:
                ci = self.w.get_class(q)
                if ci is not None and attr in ci.methods:
                    return VFunc(ci.methods[attr], bound=selfv, cls_ctx=q)
                if attr == "__init__" and ci is not None and ci.is_dataclass:
                    return VBuiltin("dcinit", bound=(q, selfv))
            raise Unsupported(f"super().{attr} not found above {cur_cls}")
        if isinstance(base, VBuiltin):
            if base.name == "old_ns":
                raise Unsupported("old namespace")
            return VBuiltin(base.name + "." + attr)
        if isinstance(base, VSlice):
            if attr in ("start", "stop", "step"):
                return getattr(base, attr)
        if isinstance(base, VExc):
            if attr == "args":
                return PyTuple(base.args)
            raise Unsupported(f"exception attribute {attr}")
        if isinstance(base, SV):
            base = self.force(base, fr)
            t = base.ty
            if isinstance(t, TOpt) and fr.pure:
                # in specifications `x.f` on an optional means the payload's field
                base = SV(t.inner, t.val(base.term))
                t = base.ty
            if t is TNone:
                self.raise_exc("AttributeError")
            if isinstance(t, TUnion) and all(isinstance(a, TRec) and a.fty(attr) is not None for a in t.alts):
                # a field shared by every alternative of a union of records (InPort | OutPort .node / .offset)
                ftys = [a.fty(attr) for a in t.alts]
                if all(ft == ftys[0] for ft in ftys):
                    term = t.alts[-1].get(t.proj(len(t.alts) - 1, base.term), attr)
                    for i in reversed(range(len(t.alts) - 1)):
                        term = z3.If(t.is_alt(i, base.term), t.alts[i].get(t.proj(i, base.term), attr), term)
                    return SV(ftys[0], term)
            if isinstance(t, (TObj, TRec)):
                return self.obj_getattr(base, attr, fr)
            if t is TAny or (isinstance(t, TObj) and self.w.get_class(t.cls).is_model and attr in ("model_dump_json", "model_dump")):
                return VBuiltin("ext:pydantic.instance." + attr, bound=base)
            if isinstance(t, TEnum):
                if attr == "value":
                    return self.cdb.types.enum_value(self, base)
                m = self.w.find_method(t.cls, attr)
                if m is not None:
                    return VFunc(m, bound=base)
                raise Unsupported(f"enum attribute {attr}")
            return VBuiltin("method:" + attr, bound=base)
        if isinstance(base, (PyTuple, PyList, VGen)):
            return VBuiltin("method:" + attr, bound=base)
        raise Unsupported(f"attribute {attr} of {base}")

    def obj_getattr(self, obj: SV, attr: str, fr: Frame):
        t = obj.ty
        cls = t.cls
        if attr == "__class__":
            q = self.dyn_exact_class(obj, fr) if isinstance(t, TObj) and not fr.pure else cls
            return VClass(self.w.get_class(q))
        if isinstance(t, TRec):
            fty = t.fty(attr)
            if fty is not None:
                return self.assume_wf(SV(fty, t.get(obj.term, attr)))
        else:
            owner = self.field_owner(cls, attr)
            if owner is not None:
                return self.read_field(obj, attr, fr)
        dcls = self.dyn_class(obj, attr, fr)
        if isinstance(t, TObj) and dcls != cls and self.w.is_subclass(dcls, cls):
            # the fork fixed the receiver's class (or class group): use it as the static type inside the method
            obj = SV(TObj(dcls, exact=len(self.w.subclasses(dcls)) == 1), obj.term)
        m = self.w.find_method(dcls, attr)
        if m is not None:
            if m.kind == "property" or m.kind == "cached_property":
                return self.call_function(m, [obj], {}, fr, recv_cls=dcls)
            if m.kind == "staticmethod":
                return VFunc(m)
            if m.kind == "classmethod":
                return VFunc(m, bound=VClass(self.w.get_class(dcls)))
            return VFunc(m, bound=obj, cls_ctx=dcls)
        for cq in self.w.mro(dcls):
            c = self.w.get_class(cq)
            if c is not None and attr in c.class_attrs:
                return self.eval(c.class_attrs[attr], Frame(c.module, pure=fr.pure))
            if c is not None and attr in c.nested:
                return VClass(c.nested[attr])
        raise Unsupported(f"attribute {cls}.{attr}")

    def dyn_class(self, obj: SV, attr: str, fr: Frame) -> str:
        """Dynamic class used for dispatch of `attr` (forks over subclasses that differ)."""
        t = obj.ty
        if isinstance(t, TRec) or t.exact:
            return t.cls
        subs = self.w.subclasses(t.cls)
        # group subclasses by the implementation they resolve `attr` to
        impls: dict = {}
        for s in subs:
            ci = self.w.get_class(s)
            if ci is not None and ci.is_protocol and s != t.cls:
                continue
            m = self.w.find_method(s, attr)
            key = m.qname if m is not None else None
            impls.setdefault(key, []).append(s)
        if len(impls) <= 1:
            return t.cls
        ic = self.cdb.interface_contract(t.cls, attr)
        if ic is not None:
            return ic[0]  # several implementations: no fork, the call goes through the interface contract
        if fr.pure:
            raise Unsupported(f"dynamic dispatch of {attr} on {t.cls} in a specification")
        keys = list(impls.keys())
        for k in keys[:-1]:
            cond = z3.Or([self.cls_of(obj.term) == self.cls_id(s) for s in impls[k]])
            if self.branch(cond):
                return impls[k][0]
        k = keys[-1]
        self.assume(z3.Or([self.cls_of(obj.term) == self.cls_id(s) for s in impls[k]]))
        return impls[k][0]

    # ------------------------------------------------------------------ operators
    def e_BoolOp(self, node, fr):
        if fr.pure:
            ts = [self.truthy(self.eval(v, fr), fr) for v in node.values]
            return SV(TBool, z3.And(ts) if isinstance(node.op, ast.And) else z3.Or(ts))
        v = None
        for i, e in enumerate(node.values):
            v = self.eval(e, fr)
            if i == len(node.values) - 1:
                return v
            t = self.truthy(v, fr)
            b = self.branch(t)
            if isinstance(node.op, ast.And):
                if not b:
                    return v
                # the operands to the right are evaluated on the path where this one is true: isinstance narrowing
                # of locals as after an `if` (the path condition carries the fact)
                self.narrow(e, fr)
            else:
                if b:
                    # a truthy optional is not None
                    if isinstance(v, SV) and isinstance(v.ty, TOpt):
                        return self.assume_wf(SV(v.ty.inner, acc(v.ty.val(v.term))))
                    return v
                # `not isinstance(x, C) or <uses x as C>`: the right operand runs on the path where the left is false
                if isinstance(e, ast.UnaryOp) and isinstance(e.op, ast.Not):
                    self.narrow(e.operand, fr)
                else:
                    self.narrow_not(e, fr)
        return v

    def e_UnaryOp(self, node, fr):
        v = self.eval(node.operand, fr)
        if isinstance(node.op, ast.Not):
            return SV(TBool, z3.Not(self.truthy(v, fr)))
        v = self.force(v, fr)
        if isinstance(node.op, ast.USub):
            return SV(TInt, -self.coerce(v, TInt).term)
        if isinstance(node.op, ast.UAdd):
            return SV(TInt, self.coerce(v, TInt).term)
        raise Unsupported("unary op")

    def e_BinOp(self, node, fr):
        a = self.force(self.eval(node.left, fr), fr)
        b = self.force(self.eval(node.right, fr), fr)
        return self.binop(node.op, a, b, fr)

    def binop(self, op, a, b, fr):
        num = (TInt, TBool)
        if isinstance(op, ast.BitOr) and isinstance(a, (VClass, PyTuple)) and isinstance(b, (VClass, PyTuple)):
            # X | Y on classes (PEP 604 union used as the second argument of isinstance): the tuple of classes
            xs = list(a.items) if isinstance(a, PyTuple) else [a]
            ys = list(b.items) if isinstance(b, PyTuple) else [b]
            return PyTuple(xs + ys)
        if isinstance(a, SV) and isinstance(b, SV) and a.ty in num and b.ty in num:
            x, y = self.coerce(a, TInt).term, self.coerce(b, TInt).term
            if isinstance(op, ast.Add):
                return SV(TInt, x + y)
            if isinstance(op, ast.Sub):
                return SV(TInt, x - y)
            if isinstance(op, ast.Mult):
                return SV(TInt, x * y)
            if isinstance(op, ast.FloorDiv):
                if not fr.pure and self.branch(y == 0):
                    self.raise_exc("ZeroDivisionError")
                # z3 div is floor for a positive divisor; floor(x/y) == floor((-x)/(-y))
                return SV(TInt, z3.If(y > 0, x / y, (-x) / (-y)))
            if isinstance(op, ast.Mod):
                if not fr.pure and self.branch(y == 0):
                    self.raise_exc("ZeroDivisionError")
                q = z3.If(y > 0, x / y, (-x) / (-y))
                return SV(TInt, x - y * q)
            if isinstance(op, (ast.BitAnd, ast.BitOr, ast.BitXor)):
                return self.bitop(op, x, y, fr)
            raise Unsupported(f"int op {type(op).__name__}")
        if isinstance(op, ast.Add):
            if isinstance(a, SV) and a.ty is TStr and isinstance(b, SV) and b.ty is TStr:
                return SV(TStr, seq_concat(a.term, b.term))
            if isinstance(a, (PyList, PyTuple)) and isinstance(b, (PyList, PyTuple)) and type(a) is type(b):
                return type(a)(a.items + b.items)
            if self.is_seq(a) or self.is_seq(b):
                sa, sb = self.two_seqs(a, b)
                return SV(sa.ty, seq_concat(sa.term, sb.term))
        if isinstance(op, ast.Mult) and isinstance(a, PyList) and len(a.items) == 1 and isinstance(a.items[0], PyList) and not a.items[0].items:
            return VGen("repeat_empty", n=self.coerce(b, TInt).term)
        if isinstance(op, ast.Mult):
            # ["0"] * n
            if self.is_seq(a) and isinstance(b, SV) and b.ty in num:
                return self.seq_repeat(a, self.coerce(b, TInt).term, fr)
            if self.is_seq(b) and isinstance(a, SV) and a.ty in num:
                return self.seq_repeat(b, self.coerce(a, TInt).term, fr)
        if isinstance(op, ast.BitOr) and isinstance(a, SV) and isinstance(a.ty, TSet):
            bb = self.coerce(b, a.ty)
            k = self.bound("uk", a.ty.k.sort())
            return SV(a.ty, z3.Lambda([k], z3.Or(z3.Select(a.term, k), z3.Select(bb.term, k))))
        raise Unsupported(f"binop {type(op).__name__} on {a}, {b}")

    def bitop(self, op, x, y, fr):
        """Bit operations on non-negative ints.  With one constant operand (< 2**16) the result is
        written with div/mod by powers of two (linear arithmetic); otherwise 16-bit vectors."""
        W = 16
        xs, ys = z3.simplify(x), z3.simplify(y)
        if z3.is_int_value(xs) and not z3.is_int_value(ys):
            x, y, xs, ys = y, x, ys, xs
        if z3.is_int_value(ys) and 0 <= ys.as_long() < 2 ** W:
            m = ys.as_long()
            if not fr.pure:
                self.oblige("bitop-nonneg", x >= 0, "safety", site=("bitop", m))
            bits = [b for b in range(W) if (m >> b) & 1]

            def bit(b):
                return (x / (2 ** b)) % 2
            if isinstance(op, ast.BitAnd):
                return SV(TInt, z3.Sum([bit(b) * (2 ** b) for b in bits]) if bits else z3.IntVal(0))
            if isinstance(op, ast.BitOr):
                return SV(TInt, x + (z3.Sum([(1 - bit(b)) * (2 ** b) for b in bits]) if bits else z3.IntVal(0)))
            return SV(TInt, x + (z3.Sum([(1 - 2 * bit(b)) * (2 ** b) for b in bits]) if bits else z3.IntVal(0)))
        if not fr.pure:
            self.oblige("bitop-range", z3.And(x >= 0, x < 2 ** W, y >= 0, y < 2 ** W), "safety", site=("bitop",))
        bx, by = z3.Int2BV(x, W), z3.Int2BV(y, W)
        if isinstance(op, ast.BitAnd):
            r = bx & by
        elif isinstance(op, ast.BitOr):
            r = bx | by
        else:
            r = bx ^ by
        return SV(TInt, z3.BV2Int(r, is_signed=False))

    def is_seq(self, v):
        return isinstance(v, (PyList, PyTuple)) or (isinstance(v, SV) and isinstance(v.ty, TSeq))

    def two_seqs(self, a, b):
        if isinstance(a, SV) and isinstance(a.ty, TSeq):
            return a, self.coerce(b, a.ty) if not isinstance(b, SV) else self.coerce(b, a.ty)
        if isinstance(b, SV) and isinstance(b.ty, TSeq):
            return self.coerce(a, b.ty), b
        sa = self.seq_of(a)
        return sa, self.coerce(b, sa.ty)

    def seq_repeat(self, s, n, fr):
        s = self.seq_of(s)
        r = self.fresh("rep", s.ty.sort())
        ln = z3.Length(s.term)
        i = self.bound("ri", z3.IntSort())
        tot = z3.If(n > 0, n * ln, z3.IntVal(0))
        self.assume(z3.Length(r) == tot)
        # element i of the repetition is element i mod len of the source (exact for len 1)
        one = z3.simplify(ln)
        if z3.is_int_value(one) and one.as_long() == 1:
            self.assume(z3.ForAll([i], z3.Implies(z3.And(i >= 0, i < tot), r[i] == s.term[0])))
        else:
            self.assume(z3.ForAll([i], z3.Implies(z3.And(i >= 0, i < tot), r[i] == s.term[i % ln])))
        return SV(s.ty, r)

    def e_Compare(self, node, fr):
        left = self.eval(node.left, fr)
        res = []
        for op, rhs in zip(node.ops, node.comparators):
            right = self.eval(rhs, fr)
            c = self.compare(op, left, right, fr)
            res.append(c)
            left = right
            if not fr.pure and len(node.ops) > 1:
                if not self.branch(c):
                    return SV(TBool, z3.BoolVal(False))
        if fr.pure or len(res) > 1:
            return SV(TBool, z3.And(res) if len(res) > 1 else res[0])
        return SV(TBool, res[0])

    def compare(self, op, a, b, fr):
        if isinstance(op, ast.Is) or isinstance(op, ast.IsNot):
            r = self.py_is(a, b, fr)
            return z3.Not(r) if isinstance(op, ast.IsNot) else r
        if isinstance(op, ast.Eq):
            return self.py_eq(a, b, fr)
        if isinstance(op, ast.NotEq):
            return z3.Not(self.py_eq(a, b, fr))
        if isinstance(op, (ast.In, ast.NotIn)):
            r = self.py_in(a, b, fr)
            return z3.Not(r) if isinstance(op, ast.NotIn) else r
        a = self.force(a, fr)
        b = self.force(b, fr)
        if fr.pure:
            a = self.unopt(a)
            b = self.unopt(b)
        num = (TInt, TBool)
        if isinstance(a, SV) and isinstance(b, SV) and a.ty in num and b.ty in num:
            x, y = self.coerce(a, TInt).term, self.coerce(b, TInt).term
            if isinstance(op, ast.Lt):
                return x < y
            if isinstance(op, ast.LtE):
                return x <= y
            if isinstance(op, ast.Gt):
                return x > y
            if isinstance(op, ast.GtE):
                return x >= y
        raise Unsupported(f"compare {type(op).__name__} on {a}, {b}")

    def unopt(self, v):
        if isinstance(v, SV) and isinstance(v.ty, TOpt):
            return SV(v.ty.inner, v.ty.val(v.term))
        return v

    def py_is(self, a, b, fr):
        if isinstance(a, SV) and isinstance(b, SV):
            if a.ty is TNone and b.ty is TNone:
                return z3.BoolVal(True)
            if b.ty is TNone or a.ty is TNone:
                x = a if b.ty is TNone else b
                if isinstance(x.ty, TOpt):
                    return x.ty.is_none(x.term)
                if isinstance(x.ty, TUnion):
                    i = x.ty.index(TNone)
                    return x.ty.is_alt(i, x.term) if i is not None else z3.BoolVal(False)
                return z3.BoolVal(False)
            if isinstance(a.ty, TOpt) and isinstance(b.ty, TOpt) and a.ty == b.ty and isinstance(a.ty.inner, TObj):
                return a.term == b.term
            if isinstance(a.ty, TObj) and isinstance(b.ty, TObj):
                return a.term == b.term
            if isinstance(a.ty, TEnum) and isinstance(b.ty, TEnum):
                return a.term == b.term if a.ty == b.ty else z3.BoolVal(False)
            if a.ty is TBool and b.ty is TBool:
                return a.term == b.term
            if isinstance(a.ty, TOpt) and isinstance(b.ty, TObj):
                return z3.And(z3.Not(a.ty.is_none(a.term)), a.ty.val(a.term) == b.term)
            if isinstance(b.ty, TOpt) and isinstance(a.ty, TObj):
                return z3.And(z3.Not(b.ty.is_none(b.term)), b.ty.val(b.term) == a.term)
        if isinstance(a, VClass) and isinstance(b, VClass):
            return z3.BoolVal(a.ci.qname == b.ci.qname)
        if isinstance(a, VGen) and isinstance(b, SV) and b.ty is TNone:
            return z3.BoolVal(False)
        if isinstance(b, VGen) and isinstance(a, SV) and a.ty is TNone:
            return z3.BoolVal(False)
        raise Unsupported(f"`is` between {a} and {b}")

    def py_in(self, a, b, fr):
        if isinstance(b, (PyList, PyTuple)):
            return z3.Or([self.py_eq(a, x, fr) for x in b.items] + [z3.BoolVal(False)])
        if isinstance(b, SV):
            b = self.force(b, fr)
            if isinstance(b.ty, TDict):
                return z3.Select(b.ty.dom(b.term), self.key_of(a, b.ty.k))
            if isinstance(b.ty, TSet):
                if isinstance(a, SV) and isinstance(a.ty, TOpt) and not isinstance(b.ty.k, TOpt):
                    return z3.And(z3.Not(a.ty.is_none(a.term)), z3.Select(b.term, a.ty.val(a.term)))
                return z3.Select(b.term, self.key_of(a, b.ty.k))
            if isinstance(b.ty, TSeq):
                if self.eq_is_structural(b.ty.elem):
                    return z3.Contains(b.term, z3.Unit(self.coerce(a, b.ty.elem).term))
                i = self.bound("ini", z3.IntSort())
                return z3.Exists([i], z3.And(i >= 0, i < z3.Length(b.term), self.py_eq(SV(b.ty.elem, b.term[i]), a, fr)))
            if b.ty is TStr and isinstance(a, SV) and a.ty is TStr:
                return z3.Contains(b.term, a.term)
        if isinstance(b, VGen) and b.kind == "setlit":
            return z3.Or([self.py_eq(a, x, fr) for x in b.items] + [z3.BoolVal(False)])
        raise Unsupported(f"`in` on {b}")

    def e_IfExp(self, node, fr):
        c = self.truthy(self.eval(node.test, fr), fr)
        if fr.pure:
            if getattr(fr, "pure_code", False) and self.pure_ctx:
                # real code evaluated purely: each arm under its condition (raises, preconditions and
                # facts inside it are guarded), with isinstance narrowing of locals
                saved_env = dict(fr.env)
                self.pure_extra.append(c)
                try:
                    self.narrow(node.test, fr)
                    a = self.eval(node.body, fr)
                finally:
                    self.pure_extra.pop()
                    fr.env = dict(saved_env)
                self.pure_extra.append(z3.Not(c))
                try:
                    self.narrow_not(node.test, fr)
                    b = self.eval(node.orelse, fr)
                finally:
                    self.pure_extra.pop()
                    fr.env = dict(saved_env)
                return self.ite(c, a, b)
            a = self.eval(node.body, fr)
            b = self.eval(node.orelse, fr)
            return self.ite(c, a, b)
        if self.branch(c):
            return self.eval(node.body, fr)
        return self.eval(node.orelse, fr)

    def ite(self, c, a, b):
        if isinstance(a, SV) and isinstance(b, SV):
            if a.ty == b.ty:
                return SV(a.ty, z3.If(c, a.term, b.term))
            if a.ty is TNone and not isinstance(b.ty, TOpt):
                t = TOpt(b.ty)
                return SV(t, z3.If(c, t.none(), t.some(b.term)))
            if b.ty is TNone and not isinstance(a.ty, TOpt):
                t = TOpt(a.ty)
                return SV(t, z3.If(c, t.some(a.term), t.none()))
            if isinstance(a.ty, TOpt):
                return SV(a.ty, z3.If(c, a.term, self.coerce(b, a.ty).term))
            if isinstance(b.ty, TOpt):
                return SV(b.ty, z3.If(c, self.coerce(a, b.ty).term, b.term))
            if {a.ty, b.ty} == {TInt, TBool}:
                return SV(TInt, z3.If(c, self.coerce(a, TInt).term, self.coerce(b, TInt).term))
            if isinstance(a.ty, TObj) and isinstance(b.ty, TObj):
                return SV(TObj(self.cdb.types.common_base(a.ty.cls, b.ty.cls)), z3.If(c, a.term, b.term))
            if isinstance(a.ty, TSeq) and isinstance(b.ty, TSeq) and a.ty.elem == b.ty.elem:
                return SV(a.ty, z3.If(c, a.term, b.term))
        if isinstance(a, (PyList, PyTuple)) or isinstance(b, (PyList, PyTuple)):
            if isinstance(a, SV) and isinstance(a.ty, TSeq):
                return SV(a.ty, z3.If(c, a.term, self.coerce(b, a.ty).term))
            if isinstance(b, SV) and isinstance(b.ty, TSeq):
                return SV(b.ty, z3.If(c, self.coerce(a, b.ty).term, b.term))
        raise Unsupported(f"ite of {a} / {b}")

    def e_NamedExpr(self, node, fr):
        v = self.eval(node.value, fr)
        fr.env[node.target.id] = v
        return v

    def e_Tuple(self, node, fr):
        items, sv = self.eval_elts(node.elts, fr)
        if sv is not None:
            return SV(TSeq(sv.ty.elem, tuple_=True), sv.term)
        return PyTuple(items)

    def e_List(self, node, fr):
        items, sv = self.eval_elts(node.elts, fr)
        if sv is not None:
            return sv
        return PyList(items)

    def eval_elts(self, elts, fr):
        items = []
        symbolic_parts = []  # when a starred symbolic sequence occurs we must build a Seq
        has_star_sym = False
        for e in elts:
            if isinstance(e, ast.Starred):
                v = self.eval(e.value, fr)
                v = self.force(v, fr)
                if isinstance(v, (PyList, PyTuple)):
                    items.extend(v.items)
                    symbolic_parts.append(("items", list(v.items)))
                else:
                    v = self.iter_to_seq(v, fr)
                    has_star_sym = True
                    symbolic_parts.append(("seq", v))
            else:
                v = self.eval(e, fr)
                items.append(v)
                symbolic_parts.append(("items", [v]))
        if not has_star_sym:
            return items, None
        # build one symbolic sequence; element type from the first symbolic part
        ety = None
        for k, p in symbolic_parts:
            if k == "seq":
                ety = p.ty.elem
                break
        sty = TSeq(ety)
        terms = []
        for k, p in symbolic_parts:
            if k == "seq":
                terms.append(self.coerce(p, sty).term)
            else:
                for x in p:
                    terms.append(z3.Unit(self.coerce(x, ety).term))
        t = terms[0] if len(terms) == 1 else seq_concat(*terms)
        return None, SV(sty, t)

    def e_Set(self, node, fr):
        items = [self.eval(e, fr) for e in node.elts]
        return VGen("setlit", items=items)

    def e_Dict(self, node, fr):
        if not node.keys:
            return VGen("emptydict")
        items = []
        for k, v in zip(node.keys, node.values):
            if k is None:
                raise Unsupported("dict unpacking")
            items.append((self.eval(k, fr), self.eval(v, fr)))
        kty = self.val_ty(items[0][0])
        vtys = []
        for _, v in items:
            try:
                t = self.val_ty(v)
            except Unsupported:
                t = None
            vtys.append(t)
        vty = vtys[0] if all(t is not None and t == vtys[0] for t in vtys) else TAny
        if vty is TAny:
            # injections must be at the value's own (static) type so that any_as() can invert them
            items = [(k, SV(TAny, self.to_any(self.coerce(v, self.val_ty(v)) if not isinstance(v, SV) else v))) for k, v in items]
        d = self.empty_dict(TDict(kty, vty))
        for k, v in items:
            d = self.dict_store(d, k, v)
        return d

    def e_Lambda(self, node, fr):
        return VLambda(node, fr)

    def e_Starred(self, node, fr):
        raise Unsupported("starred expression outside call/list")

    def e_Slice(self, node, fr):
        def part(x):
            if x is None:
                o = TOpt(TInt)
                return SV(o, o.none())
            return self.eval(x, fr)
        return VSlice(part(node.lower), part(node.upper), part(node.step))

    def e_Subscript(self, node, fr):
        base = self.eval(node.value, fr)
        if isinstance(base, VBuiltin) and (base.name.startswith(("typevar", "ext:")) or base.name in ("list", "dict", "set", "tuple", "type", "frozenset")):
            return base  # generic alias such as list[str]
        if isinstance(base, VClass):
            return base  # Generic[...] subscription
        idx = self.eval(node.slice, fr)
        return self.apply_narrowing(node, self.subscript(base, idx, fr, node), fr)

    def subscript(self, base, idx, fr, node=None):
        base = self.force(base, fr)
        if isinstance(base, (PyList, PyTuple)):
            if isinstance(idx, SV) and idx.ty in (TInt, TBool):
                it = z3.simplify(self.coerce(idx, TInt).term)
                if z3.is_int_value(it):
                    i = it.as_long()
                    if -len(base.items) <= i < len(base.items):
                        return base.items[i]
                    self.raise_exc("IndexError")
            base = self.seq_of(base)
        if isinstance(base, SV):
            t = base.ty
            if isinstance(t, TDict):
                idx = self.force(idx, fr) if not isinstance(t.k, TOpt) else idx
                if fr.pure and not isinstance(t.k, TOpt):
                    idx = self.unopt(idx)
                k = self.key_of(idx, t.k)
                present = z3.Select(t.dom(base.term), k)
                if not fr.pure and t.default_list:
                    if not self.branch(present):
                        # defaultdict(list): a missing key reads as a new empty list (the entry is
                        # created; every use in the verified code writes the list back)
                        if isinstance(node, ast.Subscript):
                            self.assign(node.value, self.dict_store(base, idx, self.mk_seq(t.v, [])), fr, None, mutate=True)
                        return self.mk_seq(t.v, [])
                elif not fr.pure:
                    if not self.branch(present):
                        self.raise_exc("KeyError", idx)
                elif getattr(fr, "pure_code", False):
                    self.oblige_pure("pure-key-present", present, site=("pkey", getattr(node, "lineno", 0)))
                return self.assume_wf(SV(t.v, z3.Select(t.val(base.term), k)))
            if isinstance(t, TSeq) or t is TStr:
                ln = z3.Length(base.term)
                if isinstance(idx, VSlice):
                    return self.seq_slice(base, idx, fr)
                idx = self.force(idx, fr)
                if fr.pure:
                    idx = self.unopt(idx)
                i = self.coerce(idx, TInt).term
                if not fr.pure:
                    if not self.branch(z3.And(i >= -ln, i < ln)):
                        self.raise_exc("IndexError")
                    if self.branch(i < 0):
                        i = i + ln
                elif getattr(fr, "pure_code", False):
                    self.oblige_pure("pure-subscript-in-range", z3.And(i >= -ln, i < ln), site=("psub", getattr(node, "lineno", 0)))
                    i = z3.If(i < 0, i + ln, i)
                if t is TStr:
                    return SV(TStr, z3.SubString(base.term, i, 1))
                return self.assume_wf(SV(t.elem, base.term[i]))
            if isinstance(t, TTuple):
                it = z3.simplify(self.coerce(idx, TInt).term)
                if z3.is_int_value(it):
                    i = it.as_long()
                    if i < 0:
                        i += len(t.elems)
                    return self.assume_wf(SV(t.elems[i], acc(t.get(base.term, i))))
                raise Unsupported("symbolic index into tuple")
            if isinstance(t, (TObj, TRec)):
                return self.call_method(base, "__getitem__", [idx], {}, fr)
        raise Unsupported(f"subscript on {base}")

    def seq_slice(self, base: SV, sl: VSlice, fr):
        ln = z3.Length(base.term)
        step = self.force(sl.step, fr)
        if not is_none(step):
            st = z3.simplify(self.coerce(step, TInt).term)
            if not (z3.is_int_value(st) and st.as_long() == 1):
                raise Unsupported("slice step on sequence")

        def bound(v, default):
            v = self.force(v, fr)
            if is_none(v):
                return default
            x = self.coerce(v, TInt).term
            return z3.If(x < 0, z3.If(x + ln < 0, z3.IntVal(0), x + ln), z3.If(x > ln, ln, x))
        lo = bound(sl.start, z3.IntVal(0))
        hi = bound(sl.stop, ln)
        n = z3.If(hi > lo, hi - lo, z3.IntVal(0))
        if base.ty is TStr:
            return SV(TStr, z3.SubString(base.term, lo, n))
        return SV(base.ty, z3.SubSeq(base.term, lo, n))

    # ------------------------------------------------------------------ comprehensions
    def e_ListComp(self, node, fr):
        return self.comprehension(node, fr, "list")

    def e_GeneratorExp(self, node, fr):
        if fr.pure:
            return self.comprehension(node, fr, "list")
        return VGen("genexp", node=node, frame=fr)

    def e_SetComp(self, node, fr):
        raise Unsupported("set comprehension")

    def e_DictComp(self, node, fr):
        return self.cdb.builtins.dict_comp(self, node, fr)

    def comprehension(self, node, fr, kind):
        return self.cdb.builtins.list_comp(self, node, fr)

    # ------------------------------------------------------------------ calls
    def e_Call(self, node, fr):
        fn = self.eval(node.func, fr)
        # spec builtins receive raw AST
        if isinstance(fn, VBuiltin) and fn.name in SPEC_NAMES and fn.bound is None:
            return self.cdb.specb.call(self, fn.name, node, fr)
        args = []
        for a in node.args:
            if isinstance(a, ast.Starred):
                v = self.force(self.eval(a.value, fr), fr)
                if isinstance(v, VGen):
                    v = self.iter_to_seq(v, fr)
                if isinstance(v, (PyList, PyTuple)):
                    args.extend(v.items)
                else:
                    args.append(_Star(v))
            else:
                try:
                    args.append(self.eval(a, fr))
                except _SeqResult as sr:
                    args.append(sr.val)
        kwargs = {}
        for kw in node.keywords:
            if kw.arg is None:
                raise Unsupported("**kwargs call")
            try:
                kwargs[kw.arg] = self.eval(kw.value, fr)
            except _SeqResult as sr:
                kwargs[kw.arg] = sr.val
        return self.call_value(fn, args, kwargs, fr, node)

    def call_value(self, fn, args, kwargs, fr, node=None):
        if isinstance(fn, VFunc):
            a = list(args)
            if fn.bound is not None:
                a = [fn.bound] + a
            return self.call_function(fn.fi, a, kwargs, fr, recv_cls=fn.cls_ctx)
        if isinstance(fn, VClass):
            return self.instantiate(fn.ci, args, kwargs, fr)
        if isinstance(fn, VBuiltin):
            return self.cdb.builtins.call(self, fn, args, kwargs, fr, node)
        if isinstance(fn, VLambda):
            return self.call_lambda(fn, args, fr)
        if isinstance(fn, _SpecFunc):
            return self.call_spec(fn, args, kwargs, fr)
        if isinstance(fn, SV) and isinstance(fn.ty, (TObj, TRec)):
            # calling an instance: its class's __call__
            m = self.getattr(fn, "__call__", fr)
            return self.call_value(m, args, kwargs, fr, node)
        raise Unsupported(f"call of {fn}")

    def call_lambda(self, lam: VLambda, args, fr):
        nfr = Frame(lam.frame.module, lam.frame.cls, lam.frame.fi, pure=fr.pure or lam.frame.pure)
        nfr.env = dict(lam.frame.env)
        nfr.heap_override = fr.heap_override
        nfr.ghost = lam.frame.ghost
        nfr.contract = lam.frame.contract
        nfr.pure_code = getattr(lam.frame, "pure_code", False)
        names = [a.arg for a in lam.node.args.args]
        if len(names) != len(args):
            raise Unsupported("lambda arity")
        for n, a in zip(names, args):
            nfr.env[n] = a
        return self.eval(lam.node.body, nfr)

    def call_spec(self, sp, args, kwargs, fr):
        """Inline a specification function (pure)."""
        nfr = Frame(sp.module, pure=True)
        nfr.heap_override = fr.heap_override
        nfr.contract = sp
        nfr.ghost = fr.ghost
        params = [a.arg for a in sp.node.args.args]
        if len(args) + len(kwargs) > len(params):
            raise Unsupported(f"spec function {sp.name} arity")
        for n, a in zip(params, args):
            nfr.env[n] = a
        for k, v in kwargs.items():
            nfr.env[k] = v
        self.depth += 1
        if self.depth > 60:
            raise Unsupported("spec recursion too deep")
        try:
            return self.exec_pure_body(sp.node.body, nfr)
        finally:
            self.depth -= 1

    def exec_pure_body(self, body, fr):
        """Body of a pure function: simple assignments, if/return chains, final return."""
        for i, st in enumerate(body):
            if isinstance(st, ast.Expr) and isinstance(st.value, ast.Constant):
                continue
            if isinstance(st, ast.Assign) and len(st.targets) == 1 and isinstance(st.targets[0], ast.Name):
                fr.env[st.targets[0].id] = self.eval(st.value, fr)
                continue
            if isinstance(st, ast.Return):
                return self.eval(st.value, fr) if st.value is not None else NONE
            if isinstance(st, ast.If):
                c = self.truthy(self.eval(st.test, fr), fr)
                rest = body[i + 1:]
                env0 = dict(fr.env)
                a = self.exec_pure_body(st.body + rest, fr)
                fr.env = dict(env0)
                b = self.exec_pure_body(st.orelse + rest, fr)
                fr.env = env0
                return self.ite(c, a, b)
            raise Unsupported(f"statement {type(st).__name__} in a pure body")
        return NONE

    # ------------------------------------------------------------------ function calls
    def bind_args(self, fi: FuncInfo, args, kwargs, fr) -> dict:
        a = fi.node.args
        params = [p.arg for p in a.posonlyargs + a.args]
        defaults = [None] * (len(params) - len(a.defaults)) + list(a.defaults)
        env = {}
        pos = list(args)
        for i, p in enumerate(params):
            if pos:
                v = pos.pop(0)
                if isinstance(v, _Star):
                    raise Unsupported("symbolic *args into positional parameters")
                env[p] = v
            elif p in kwargs:
                env[p] = kwargs.pop(p)
            elif defaults[i] is not None:
                env[p] = self.eval(defaults[i], Frame(fi.module, pure=fr.pure))
            else:
                raise Unsupported(f"missing argument {p} for {fi.qname}")
        if a.vararg is not None:
            if len(pos) == 1 and isinstance(pos[0], _Star):
                env[a.vararg.arg] = pos[0].val
            else:
                if any(isinstance(x, _Star) for x in pos):
                    raise Unsupported("mixed *args")
                env[a.vararg.arg] = PyTuple(pos)
            pos = []
        if pos:
            raise Unsupported(f"too many arguments for {fi.qname}")
        for i, p in enumerate(a.kwonlyargs):
            if p.arg in kwargs:
                env[p.arg] = kwargs.pop(p.arg)
            elif a.kw_defaults[i] is not None:
                env[p.arg] = self.eval(a.kw_defaults[i], Frame(fi.module, pure=fr.pure))
            else:
                raise Unsupported(f"missing kw argument {p.arg}")
        if kwargs:
            if a.kwarg is not None:
                raise Unsupported("**kwargs parameter")
            raise Unsupported(f"unexpected kwargs {list(kwargs)} for {fi.qname}")
        return env

    def call_function(self, fi: FuncInfo, args, kwargs, fr, recv_cls=None):
        """Call a repo function: by contract if one exists (and we are not verifying through it
        as `inline`), otherwise by symbolically executing its real body."""
        con = self.cdb.contract_for(fi, recv_cls, args, kwargs)
        if con is not None and not con.inline and not (fr.pure and con.pure_inline):
            return self.cdb.apply_contract(self, con, fi, args, kwargs, fr)
        if fi.is_stub:
            raise Unsupported(f"call of protocol stub {fi.qname} without a contract")
        return self.inline_call(fi, args, kwargs, fr, recv_cls)

    def inline_call(self, fi: FuncInfo, args, kwargs, fr, recv_cls=None):
        env = self.bind_args(fi, args, dict(kwargs), fr)
        cls = f"{fi.module}.{fi.cls}" if fi.cls else None
        nfr = Frame(fi.module, cls, fi, pure=fr.pure)
        nfr.heap_override = fr.heap_override
        nfr.env = env
        nfr.ghost = fr.ghost if fr.pure else {}
        nfr.pure_code = getattr(fr, "pure_code", False)
        nfr.contract = self.cdb.contract_for(fi, recv_cls, args, kwargs)
        self.depth += 1
        if self.depth > 40:
            raise Unsupported(f"call depth exceeded at {fi.qname}")
        self.notes.add(f"inlined body of {fi.qname}")
        try:
            if fr.pure and not fi.is_generator:
                return self.exec_pure_body(fi.node.body, nfr)
            if fi.is_generator:
                self.init_generator_frame(fi, nfr, self.cdb.contract_for(fi, recv_cls, args, kwargs))
            try:
                self.exec_block(fi.node.body, nfr)
            except ReturnSig as r:
                return nfr.env["_yielded"] if fi.is_generator else r.val
            return nfr.env["_yielded"] if fi.is_generator else NONE
        finally:
            self.depth -= 1

    def init_generator_frame(self, fi, nfr, con):
        """A generator function is executed eagerly; the values it yields are collected in the
        local `_yielded` (a sequence) which is what the call returns.  Laziness is not modelled."""
        ety = None
        if con is not None and con.returns is not None:
            t = self.cdb.types.parse_ty(con.returns)
            if isinstance(t, TSeq):
                ety = t
        if ety is None and fi.node.returns is not None:
            t = self.cdb.types.ann_to_ty(fi.module, fi.node.returns)
            if isinstance(t, TSeq):
                ety = t
        if ety is None:
            raise Unsupported(f"generator function {fi.qname}: element type unknown (give `returns`)")
        nfr.env["_yielded"] = self.mk_seq(TSeq(ety.elem), [])
        self.notes.add("generator functions are executed eagerly: the call returns the sequence of yielded values")

    def e_Yield(self, node, fr):
        v = self.eval(node.value, fr) if node.value is not None else NONE
        cur = fr.env["_yielded"]
        fr.env["_yielded"] = self.seq_append(cur, self.coerce(v, cur.ty.elem).term)
        return NONE

    def seq_append(self, cur: SV, e) -> SV:
        """cur + [e], with the pointwise consequences stated as hints for the solvers."""
        new = seq_concat(cur.term, z3.Unit(e))
        ln = z3.Length(cur.term)
        j = self.bound("apj", z3.IntSort())
        self.assume(z3.Length(new) == ln + 1)
        self.assume(new[ln] == e)
        self.assume(z3.ForAll([j], z3.Implies(z3.And(j >= 0, j < ln), new[j] == cur.term[j])))
        return SV(cur.ty, new)

    def e_YieldFrom(self, node, fr):
        v = self.iter_to_seq(self.force(self.eval(node.value, fr), fr), fr)
        cur = fr.env["_yielded"]
        fr.env["_yielded"] = SV(cur.ty, seq_concat(cur.term, self.coerce(v, cur.ty).term))
        return NONE

    def call_method(self, obj, name, args, kwargs, fr):
        f = self.getattr(obj, name, fr)
        return self.call_value(f, args, kwargs, fr)

    def instantiate(self, ci: ClassInfo, args, kwargs, fr):
        return self.cdb.types.instantiate(self, ci, args, kwargs, fr)

    # ------------------------------------------------------------------ iteration helpers
    def iter_to_seq(self, v, fr) -> SV:
        """Materialise an iterable into a symbolic sequence (consumes generators)."""
        v = self.force(v, fr)
        if isinstance(v, SV) and isinstance(v.ty, TSeq):
            return v
        if isinstance(v, (PyList, PyTuple)):
            return self.seq_of(v)
        if isinstance(v, VGen):
            return self.cdb.builtins.gen_to_seq(self, v, fr)
        if isinstance(v, VRange):
            return self.cdb.builtins.range_to_seq(self, v, fr)
        if isinstance(v, SV) and isinstance(v.ty, TDict) and v.ty.ordered:
            return SV(TSeq(v.ty.k), v.ty.keys(v.term))
        if isinstance(v, SV) and isinstance(v.ty, TSet):
            # a set listed in *some* order: duplicate-free, exactly the members
            ks = self.fresh("setlist", z3.SeqSort(v.ty.k.sort()))
            i, j = self.bound("sli", z3.IntSort()), self.bound("slj", z3.IntSort())
            x = self.bound("slx", v.ty.k.sort())
            ln = z3.Length(ks)
            self.assume(z3.ForAll([i], z3.Implies(z3.And(i >= 0, i < ln), z3.Select(v.term, ks[i]))))
            self.assume(z3.ForAll([i, j], z3.Implies(z3.And(i >= 0, i < j, j < ln), ks[i] != ks[j])))
            self.assume(z3.ForAll([x], z3.Implies(z3.Select(v.term, x), z3.Exists([i], z3.And(i >= 0, i < ln, ks[i] == x)))))
            self.notes.add("iteration order of a set is unspecified: modelled as some duplicate-free listing of its members")
            return SV(TSeq(v.ty.k), ks)
        if isinstance(v, SV) and isinstance(v.ty, (TObj, TRec)):
            it = self.call_method(v, "__iter__", [], {}, fr)
            return self.iter_to_seq(it, fr)
        raise Unsupported(f"cannot materialise {v}")

    # ================================================================== statements
    def exec_block(self, stmts, fr: Frame):
        for st in stmts:
            self.exec_stmt(st, fr)

    def exec_stmt(self, st, fr: Frame):
        if getattr(fr, "narrowed", None) and not isinstance(st, (ast.Return, ast.Assert, ast.If)) and _may_mutate(st):
            fr.narrowed = {}  # expression narrowings do not survive statements that may change the heap
        m = getattr(self, "s_" + type(st).__name__, None)
        if m is None:
            raise Unsupported(f"statement {type(st).__name__} at line {st.lineno}")
        return m(st, fr)

    def s_Expr(self, st, fr):
        if isinstance(st.value, ast.Constant):
            return
        try:
            self.eval(st.value, fr)
        except _SeqResult:
            pass

    def s_Pass(self, st, fr):
        return

    def s_Return(self, st, fr):
        if st.value is None:
            raise ReturnSig(NONE)
        try:
            v = self.eval(st.value, fr)
        except _SeqResult as sr:
            v = sr.val
        raise ReturnSig(v)

    def s_Raise(self, st, fr):
        if st.exc is None:
            cur = getattr(fr, "current_exc", None)
            if cur is None:
                raise Unsupported("bare raise outside handler")
            raise RaiseSig(cur)
        v = self.eval(st.exc, fr)
        if isinstance(v, VExc):
            raise RaiseSig(v)
        if isinstance(v, VBuiltin) and v.name.startswith("exc:"):
            raise RaiseSig(VExc(v.name[4:]))
        if isinstance(v, VClass):
            raise RaiseSig(VExc(v.ci.qname, [], v.ci))
        if isinstance(v, SV) and isinstance(v.ty, TObj):
            raise RaiseSig(VExc(v.ty.cls, [v], self.w.get_class(v.ty.cls)))
        raise Unsupported(f"raise of {v}")

    def s_Assert(self, st, fr):
        c = self.truthy(self.eval(st.test, fr), fr)
        if not self.branch(c):
            self.raise_exc("AssertionError")
        self.narrow(st.test, fr)

    def s_Assign(self, st, fr):
        try:
            v = self.eval(st.value, fr)
        except _SeqResult as sr:
            v = sr.val
        for tgt in st.targets:
            self.assign(tgt, v, fr, st.value)

    def s_AnnAssign(self, st, fr):
        if st.value is None:
            return
        try:
            v = self.eval(st.value, fr)
        except _SeqResult as sr:
            v = sr.val
        # an annotation on a local container literal fixes its type
        if isinstance(v, (PyList, VGen)) and isinstance(st.target, ast.Name):
            try:
                ty = self.ann_to_ty(fr.module, st.annotation)
                v = self.cdb.builtins.literal_as(self, v, ty, fr)
            except Unsupported:
                pass
        self.assign(st.target, v, fr, st.value)

    def s_AugAssign(self, st, fr):
        cur = self.eval(_as_load(st.target), fr)
        rhs = self.eval(st.value, fr)
        cur = self.force(cur, fr)
        rhs = self.force(rhs, fr)
        if isinstance(rhs, VGen):
            rhs = self.iter_to_seq(rhs, fr)
        v = self.binop(st.op, cur, rhs, fr)
        mutable = isinstance(cur, SV) and isinstance(cur.ty, TSeq) and not cur.ty.tuple_ and not cur.ty.bytes_
        self.assign(st.target, v, fr, None, mutate=mutable)
        if isinstance(cur, SV) and isinstance(cur.ty, TSeq) and cur.ty.bytes_:
            # bytearray += bytes keeps identity as well
            self.assign(st.target, v, fr, None, mutate=True)

    def assign(self, tgt, v, fr, src_expr=None, mutate=False):
        if isinstance(tgt, ast.Name):
            fr.env[tgt.id] = v
            if mutate and tgt.id in fr.alias:
                self.assign(fr.alias[tgt.id], v, fr, None, mutate=True)
            elif not mutate:
                fr.alias.pop(tgt.id, None)
                if src_expr is not None and isinstance(src_expr, (ast.Attribute, ast.Subscript)) and self.is_mutable_container(v):
                    fr.alias[tgt.id] = src_expr
            return
        if isinstance(tgt, (ast.Tuple, ast.List)):
            items = self.unpack(v, len(tgt.elts), fr)
            for t, x in zip(tgt.elts, items):
                self.assign(t, x, fr)
            return
        if isinstance(tgt, ast.Attribute):
            base = self.force(self.eval(tgt.value, fr), fr)
            if isinstance(base, SV) and isinstance(base.ty, TObj):
                ci = self.w.get_class(base.ty.cls)
                self.write_field(base, tgt.attr, v, fr)
                return
            if isinstance(base, VClass):
                raise Unsupported("class attribute assignment")
            raise Unsupported(f"attribute store on {base}")
        if isinstance(tgt, ast.Subscript):
            base = self.force(self.eval(tgt.value, fr), fr)
            idx = self.eval(tgt.slice, fr)
            nb = self.store_subscript(base, idx, v, fr)
            self.assign(tgt.value, nb, fr, None, mutate=True)
            return
        raise Unsupported(f"assignment target {type(tgt).__name__}")

    def is_mutable_container(self, v):
        return isinstance(v, SV) and (isinstance(v.ty, (TDict, TSet)) or (isinstance(v.ty, TSeq) and not v.ty.tuple_ and not v.ty.bytes_))

    def store_subscript(self, base, idx, v, fr):
        if isinstance(base, SV) and isinstance(base.ty, TDict):
            if not isinstance(base.ty.k, TOpt):
                idx = self.force(idx, fr)
            return self.dict_store(base, idx, v)
        if isinstance(base, SV) and isinstance(base.ty, TSeq):
            ln = z3.Length(base.term)
            i = self.coerce(self.force(idx, fr), TInt).term
            if not self.branch(z3.And(i >= -ln, i < ln)):
                self.raise_exc("IndexError")
            if self.branch(i < 0):
                i = i + ln
            e = self.coerce(v, base.ty.elem).term
            new = seq_concat(z3.SubSeq(base.term, 0, i), z3.Unit(e), z3.SubSeq(base.term, i + 1, ln - i - 1))
            # consequences of the definition, stated pointwise (hints: the sequence solvers are slow
            # at deriving them from extract/concat)
            j = self.bound("stj", z3.IntSort())
            self.assume(z3.Length(new) == ln)
            self.assume(new[i] == e)
            self.assume(z3.ForAll([j], z3.Implies(z3.And(j >= 0, j < ln, j != i), new[j] == base.term[j])))
            return SV(base.ty, new)
        raise Unsupported(f"subscript store on {base}")

    def unpack(self, v, n, fr):
        v = self.force(v, fr)
        if isinstance(v, (PyTuple, PyList)):
            if len(v.items) != n:
                self.raise_exc("ValueError")
            return v.items
        if isinstance(v, SV) and isinstance(v.ty, TTuple):
            if len(v.ty.elems) != n:
                self.raise_exc("ValueError")
            return [self.assume_wf(SV(t, acc(v.ty.get(v.term, i)))) for i, t in enumerate(v.ty.elems)]
        if isinstance(v, SV) and isinstance(v.ty, TSeq):
            if not self.branch(z3.Length(v.term) == n):
                self.raise_exc("ValueError")
            return [self.assume_wf(SV(v.ty.elem, v.term[i])) for i in range(n)]
        if isinstance(v, SV) and isinstance(v.ty, (TObj, TRec)):
            s = self.iter_to_seq(v, fr)
            return self.unpack(s, n, fr)
        raise Unsupported(f"unpack of {v}")

    def s_Delete(self, st, fr):
        for tgt in st.targets:
            if not isinstance(tgt, ast.Subscript):
                raise Unsupported("del of non-subscript")
            base = self.force(self.eval(tgt.value, fr), fr)
            idx = self.eval(tgt.slice, fr)
            if isinstance(base, SV) and isinstance(base.ty, TDict):
                if not isinstance(base.ty.k, TOpt):
                    idx = self.force(idx, fr)
                k = self.key_of(idx, base.ty.k)
                if not self.branch(z3.Select(base.ty.dom(base.term), k)):
                    self.raise_exc("KeyError", idx)
                nb = self.dict_del(base, idx)
                self.assign(tgt.value, nb, fr, None, mutate=True)
            elif isinstance(base, SV) and isinstance(base.ty, (TObj,)):
                self.call_method(base, "__delitem__", [idx], {}, fr)
            else:
                raise Unsupported(f"del on {base}")

    def s_If(self, st, fr):
        c = self.truthy(self.eval(st.test, fr), fr)
        if self.branch(c):
            self.narrow(st.test, fr)
            self.exec_block(st.body, fr)
        else:
            self.narrow_not(st.test, fr)
            self.exec_block(st.orelse, fr)

    def narrow_none(self, test, fr, truth: bool):
        """`x is None` / `x is not None` with known outcome: give the optional local its payload type."""
        if not (isinstance(test, ast.Compare) and len(test.ops) == 1 and isinstance(test.left, (ast.Name, ast.Attribute, ast.Subscript))
                and isinstance(test.comparators[0], ast.Constant) and test.comparators[0].value is None):
            return False
        is_none = isinstance(test.ops[0], ast.Is)
        if not is_none and not isinstance(test.ops[0], ast.IsNot):
            return False
        if not isinstance(test.left, ast.Name):
            if truth != is_none:   # known not None
                if not hasattr(fr, "narrowed"):
                    fr.narrowed = {}
                fr.narrowed[ast.dump(test.left)] = "<notnone>"
            return True
        nm = test.left.id
        v = fr.env.get(nm)
        known_none = (truth == is_none)
        if isinstance(v, SV) and isinstance(v.ty, TOpt):
            fr.env[nm] = NONE if known_none else self.assume_wf(SV(v.ty.inner, acc(v.ty.val(v.term))))
        return True

    def narrow_not(self, test, fr):
        """`isinstance(x, T)` found false for a union-typed local: drop the alternatives T covers."""
        if self.narrow_none(test, fr, False):
            return
        if not (isinstance(test, ast.Call) and isinstance(test.func, ast.Name) and test.func.id == "isinstance" and len(test.args) == 2 and isinstance(test.args[0], ast.Name)):
            return
        nm = test.args[0].id
        v = fr.env.get(nm)
        if not (isinstance(v, SV) and isinstance(v.ty, TUnion)):
            return
        try:
            c = self.eval(test.args[1], fr)
        except Unsupported:
            return
        if isinstance(c, VBuiltin) and c.name == "int":
            rest = [i for i, a in enumerate(v.ty.alts) if a not in (TInt, TBool)]
        elif isinstance(c, VBuiltin) and c.name == "list":
            rest = [i for i, a in enumerate(v.ty.alts) if not (isinstance(a, TSeq) and not a.tuple_)]
        else:
            return
        if len(rest) == 1:
            i = rest[0]
            a = v.ty.alts[i]
            fr.env[nm] = NONE if a is TNone else SV(a, acc(v.ty.proj(i, v.term)))
        elif 1 < len(rest) < len(v.ty.alts):
            # the remaining alternatives as a smaller union
            t = TUnion([v.ty.alts[i] for i in rest])
            res = None
            for i in reversed(rest):
                inj = self.coerce(SV(v.ty.alts[i], acc(v.ty.proj(i, v.term))), t).term
                res = inj if res is None else z3.If(v.ty.is_alt(i, v.term), inj, res)
            fr.env[nm] = SV(t, res)

    def narrow(self, test, fr):
        """After `isinstance(x, C)` (or a conjunction containing it) was found true, give the local x
        the narrower static type."""
        if isinstance(test, ast.BoolOp) and isinstance(test.op, ast.And):
            for v in test.values:
                self.narrow(v, fr)
            return
        if self.narrow_none(test, fr, True):
            return
        if (isinstance(test, ast.Call) and isinstance(test.func, ast.Name) and test.func.id == "isinstance" and len(test.args) == 2
                and isinstance(test.args[0], (ast.Attribute, ast.Subscript))):
            try:
                c = self.eval(test.args[1], fr)
            except Unsupported:
                return
            if isinstance(c, VClass) and not c.ci.is_protocol:
                if not hasattr(fr, "narrowed"):
                    fr.narrowed = {}
                fr.narrowed[ast.dump(test.args[0])] = c.ci.qname
            return
        if isinstance(test, ast.Call) and isinstance(test.func, ast.Name) and test.func.id == "isinstance" and len(test.args) == 2 and isinstance(test.args[0], ast.Name):
            nm = test.args[0].id
            v = fr.env.get(nm)
            try:
                c = self.eval(test.args[1], fr)
            except Unsupported:
                return
            if isinstance(c, VBuiltin) and isinstance(v, SV) and isinstance(v.ty, TUnion):
                def fits(a):
                    n = c.name
                    return ((n == "int" and a in (TInt, TBool)) or (n == "bool" and a is TBool) or (n == "str" and a is TStr)
                            or (n == "list" and isinstance(a, TSeq) and not a.tuple_ and not a.bytes_))
                hits = [i for i, a in enumerate(v.ty.alts) if fits(a)]
                if len(hits) == 1:
                    i = hits[0]
                    fr.env[nm] = SV(v.ty.alts[i], acc(v.ty.proj(i, v.term)))
                return
            if isinstance(c, VClass) and isinstance(v, SV) and isinstance(v.ty, TUnion):
                hits = [i for i, a in enumerate(v.ty.alts) if isinstance(a, TObj)]
                if len(hits) == 1:
                    i = hits[0]
                    fr.env[nm] = SV(v.ty.alts[i], acc(v.ty.proj(i, v.term)))
                    v = fr.env[nm]
            if isinstance(c, VClass) and isinstance(v, SV):
                inner = v
                if isinstance(v.ty, TOpt) and isinstance(v.ty.inner, TObj):
                    inner = SV(v.ty.inner, v.ty.val(v.term))
                if isinstance(inner.ty, TObj) and not inner.ty.exact and self.w.is_subclass(c.ci.qname, inner.ty.cls) and not c.ci.is_protocol:
                    exact = len([q for q in self.w.subclasses(c.ci.qname)]) == 1
                    fr.env[nm] = SV(TObj(c.ci.qname, exact=exact), inner.term)
                elif isinstance(inner.ty, TObj) and not inner.ty.exact and self.w.is_subclass(c.ci.qname, inner.ty.cls) and c.ci.is_protocol:
                    # a runtime-checkable protocol: isinstance is structural.  Narrow only when the
                    # concrete classes that satisfy it structurally are exactly its nominal subclasses
                    cands = [q for q in self.w.subclasses(inner.ty.cls) if not self.w.get_class(q).is_protocol]
                    nominal = {q for q in cands if self.w.is_subclass(q, c.ci.qname)}
                    struct = {q for q in cands if q in nominal or self.cdb.builtins.structural_protocol(self, q, c.ci)}
                    if nominal == struct and nominal:
                        fr.env[nm] = SV(TObj(c.ci.qname, exact=False), inner.term)

    def s_Try(self, st, fr):
        if st.finalbody:
            raise Unsupported("try/finally")
        try:
            self.exec_block(st.body, fr)
        except RaiseSig as rs:
            for h in st.handlers:
                if self.handler_matches(h, rs.exc, fr):
                    if h.name:
                        fr.env[h.name] = rs.exc
                    prev = getattr(fr, "current_exc", None)
                    fr.current_exc = rs.exc
                    try:
                        self.exec_block(h.body, fr)
                    finally:
                        fr.current_exc = prev
                    return
            raise
        else:
            self.exec_block(st.orelse, fr)

    def handler_matches(self, h, exc: VExc, fr) -> bool:
        if h.type is None:
            return True
        types = h.type.elts if isinstance(h.type, ast.Tuple) else [h.type]
        for t in types:
            v = self.eval(t, fr)
            if isinstance(v, VBuiltin) and v.name.startswith("exc:"):
                if self.exc_isinstance(exc, v.name[4:]):
                    return True
            elif isinstance(v, VClass):
                if self.exc_isinstance(exc, v.ci.qname):
                    return True
            else:
                raise Unsupported(f"except clause {v}")
        return False

    def s_Import(self, st, fr):
        for a in st.names:
            nm = a.asname or a.name.split(".")[0]
            fr.env[nm] = VModule(a.name if a.asname else a.name.split(".")[0])

    def s_ImportFrom(self, st, fr):
        for a in st.names:
            mod = st.module
            if getattr(st, "level", 0):
                # relative import: resolve against the package of the module being executed
                pkg = fr.module.split(".")
                pkg = pkg[:len(pkg) - st.level]
                mod = ".".join(pkg + ([st.module] if st.module else []))
            r = None
            if mod in self.w.modules:
                r = self.w.deref_const(self.w.resolve_name(mod, a.name))
            if r is None and f"{mod}.{a.name}" in self.w.modules:
                fr.env[a.asname or a.name] = VModule(f"{mod}.{a.name}")
            elif r is None:
                fr.env[a.asname or a.name] = VBuiltin(f"ext:{mod}.{a.name}")
            else:
                fr.env[a.asname or a.name] = self.from_resolved(r, fr)

    def s_While(self, st, fr):
        return self.cdb.loops.while_loop(self, st, fr)

    def s_For(self, st, fr):
        return self.cdb.loops.for_loop(self, st, fr)

    def s_Break(self, st, fr):
        raise BreakSig()

    def s_Continue(self, st, fr):
        raise ContinueSig()

    def s_Match(self, st, fr):
        return self.cdb.builtins.match_stmt(self, st, fr)

    def s_FunctionDef(self, st, fr):
        fi = FuncInfo(fr.module, None, st.name, st, "function", False, False)
        fr.env[st.name] = VLambda(_DefAsLambda(st), fr)
        raise Unsupported("nested def")

    def s_With(self, st, fr):
        raise Unsupported("with statement")


def _may_mutate(st) -> bool:
    for n in ast.walk(st):
        if isinstance(n, (ast.Call, ast.Delete, ast.Yield, ast.YieldFrom)):
            return True
        if isinstance(n, (ast.Assign, ast.AugAssign, ast.AnnAssign)):
            tg = n.targets if isinstance(n, ast.Assign) else [n.target]
            if any(not isinstance(t, ast.Name) for t in tg):
                return True
    return False


class _Star:
    def __init__(self, val):
        self.val = val


class _SeqResult(Exception):
    """A list/tuple display containing a starred symbolic sequence evaluates to one Seq value."""

    def __init__(self, val):
        self.val = val


class _SpecFunc:
    def __init__(self, name, module, node):
        self.name = name
        self.module = module
        self.node = node
        self.inline = True


class _DefAsLambda:
    def __init__(self, st):
        self.st = st


_POISON = object()


def is_none(v):
    return isinstance(v, SV) and v.ty is TNone


def _as_load(t):
    import copy
    t2 = copy.deepcopy(t)
    for n in ast.walk(t2):
        if hasattr(n, "ctx"):
            n.ctx = ast.Load()
    return t2
