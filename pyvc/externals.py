"""Assumed models of library functions outside /repo (each use is recorded as an assumption)."""
from __future__ import annotations

import z3

from .interp import Frame, Unsupported
from .tys import (NONE, SV, PyList, PyTuple, TAbs, TAny, TBool, TDict, TInt, TNone, TObj, TOpt, TSeq, TSet, TStr,
                  TTuple, VGen)


class Externals:
    def __init__(self, cdb):
        self.cdb = cdb
        self.handlers = {}

    def call(self, it, dotted, args, kwargs, fr, node=None):
        h = self.handlers.get(dotted)
        if h is None:
            tail = dotted.rsplit(".", 1)[-1]
            h = getattr(self, "x_" + dotted.replace(".", "_"), None) or getattr(self, "x_" + tail, None)
        if h is None:
            raise Unsupported(f"external function {dotted}")
        it.notes.add(f"assumed model of external {dotted}")
        return h(it, args, kwargs, fr)

    # -- typing helpers that are identity at run time
    def x_cast(self, it, args, kwargs, fr):
        return args[1]

    def x_replace(self, it, args, kwargs, fr):
        return self.cdb.builtins.b_replace(it, args, kwargs, fr)

    # -- strings
    def str_method(self, it, s, name, args, kwargs, fr):
        if name == "join":
            parts = it.iter_to_seq(args[0], fr)
            f = z3.Function("str_join", z3.StringSort(), z3.SeqSort(z3.StringSort()), z3.StringSort())
            r = f(s.term, parts.term)
            it.notes.add("str.join is an uninterpreted function of separator and parts (length axiom for empty separator)")
            if z3.is_string_value(z3.simplify(s.term)) and z3.simplify(s.term).as_string() == "":
                i = it.bound("ji", z3.IntSort())
                one = z3.ForAll([i], z3.Implies(z3.And(i >= 0, i < z3.Length(parts.term)), z3.Length(parts.term[i]) == 1))
                it.assume(z3.Implies(one, z3.And(z3.Length(r) == z3.Length(parts.term),
                                                 z3.ForAll([i], z3.Implies(z3.And(i >= 0, i < z3.Length(parts.term)), z3.SubString(r, i, 1) == parts.term[i])))))
            return SV(TStr, r)
        if name == "encode":
            f = z3.Function("utf8_encode", z3.StringSort(), z3.SeqSort(z3.IntSort()))
            r = SV(TSeq(TInt, bytes_=True), f(s.term))
            return it.assume_wf(r)
        if name == "format":
            return SV(TStr, it.fresh("fmt", z3.StringSort()))
        if name == "startswith":
            return SV(TBool, z3.PrefixOf(it.coerce(args[0], TStr).term, s.term))
        if name == "endswith":
            return SV(TBool, z3.SuffixOf(it.coerce(args[0], TStr).term, s.term))
        raise Unsupported(f"str method {name}")

    def bytes_decode(self, it, b, args, fr):
        """bytes.decode('utf-8'): partial inverse of encode; raises UnicodeDecodeError on invalid input."""
        valid = z3.Function("utf8_valid", z3.SeqSort(z3.IntSort()), z3.BoolSort())
        dec = z3.Function("utf8_decode", z3.SeqSort(z3.IntSort()), z3.StringSort())
        enc = z3.Function("utf8_encode", z3.StringSort(), z3.SeqSort(z3.IntSort()))
        if not fr.pure and not it.branch(valid(b.term)):
            it.raise_exc("UnicodeDecodeError")
        r = dec(b.term)
        it.assume(enc(r) == b.term)
        return SV(TStr, r)

    def str_to_int(self, it, s, fr):
        f = z3.Function("int_of_str", z3.StringSort(), z3.IntSort())
        return SV(TInt, f(s.term))

    def seq_index(self, it, s, x, fr):
        """list.index(x): first position holding an equal element, ValueError if absent."""
        e = it.coerce(x, s.ty.elem)
        i = it.fresh("idx", z3.IntSort())
        j = it.bound("idxj", z3.IntSort())
        ln = z3.Length(s.term)
        present = z3.Exists([j], z3.And(j >= 0, j < ln, it.py_eq(SV(s.ty.elem, s.term[j]), e, fr)))
        if not it.branch(present):
            it.raise_exc("ValueError")
        it.assume(z3.And(i >= 0, i < ln, it.py_eq(SV(s.ty.elem, s.term[i]), e, fr)))
        it.assume(z3.ForAll([j], z3.Implies(z3.And(j >= 0, j < i), z3.Not(it.py_eq(SV(s.ty.elem, s.term[j]), e, fr)))))
        return SV(TInt, i)

    def dict_from_pairs(self, it, v, fr):
        raise Unsupported("dict() from pairs")

    # -- pydantic / json / pyzstd (assumed library contracts, DESIGN 2.8)
    def x_pydantic_instance_model_dump_json(self, it, args, kwargs, fr):
        v = args[0]
        f = z3.Function("json_dump", TAny.sort(), z3.StringSort())
        return SV(TStr, f(it.coerce(v, TAny).term if v.ty is not TAny else v.term))

    def x_pydantic_model_validate_json(self, it, args, kwargs, fr):
        ci, payload = args[0], it.force(args[1], fr)
        from .tys import Ref
        if payload.ty is TStr:
            enc = z3.Function("utf8_encode", z3.StringSort(), z3.SeqSort(z3.IntSort()))
            payload = SV(TSeq(TInt, bytes_=True), enc(payload.term))
        f = z3.Function("json_validate_" + ci.name, z3.SeqSort(z3.IntSort()), Ref)
        r = SV(TObj(ci.qname, exact=True), f(payload.term))
        it.notes.add("pydantic model_validate_json: assumed to succeed and return an instance of the model (schema-invalid input is outside the claim)")
        return it.assume_wf(r)

    def x_pyzstd_compress(self, it, args, kwargs, fr):
        b = it.force(args[0], fr)
        lvl = it.coerce(it.force(args[1], fr), TInt)
        f = z3.Function("zcompress", z3.SeqSort(z3.IntSort()), z3.IntSort(), z3.SeqSort(z3.IntSort()))
        return it.assume_wf(SV(TSeq(TInt, bytes_=True), f(b.term, lvl.term)))

    def x_pyzstd_decompress(self, it, args, kwargs, fr):
        b = it.force(args[0], fr)
        f = z3.Function("zdecompress", z3.SeqSort(z3.IntSort()), z3.SeqSort(z3.IntSort()))
        it.notes.add("pyzstd.decompress: assumed total on the payloads considered (corrupt frames raise ZstdError, outside the claim)")
        return it.assume_wf(SV(TSeq(TInt, bytes_=True), f(b.term)))

    # -- re: only the documented register-index pattern of hugr.qsystem.result is modelled.
    # match(tag) is an uninterpreted predicate; groups are uninterpreted functions of the tag.  The
    # structural axioms (tag == name + "[" + digits + "]" (+ "\n"), digits non-empty, decimal) are
    # stated where used and compared with the real `re` by the bounded regex check.
    REG_PATTERN = r"^([a-z][\w_]*)\[(\d+)\]$"

    def x_re_compile(self, it, args, kwargs, fr):
        pat = z3.simplify(args[0].term)
        if not z3.is_string_value(pat):
            raise Unsupported("re.compile of a non-literal pattern")
        return SV(TStr, pat)

    def x_re_match(self, it, args, kwargs, fr):
        pat = z3.simplify(it.force(args[0], fr).term)
        if not (z3.is_string_value(pat) and pat.as_string() == self.REG_PATTERN):
            raise Unsupported(f"re.match with a pattern other than the documented register pattern: {pat}")
        tag = it.force(args[1], fr)
        m = z3.Function("re_reg_match", z3.StringSort(), z3.BoolSort())
        name = z3.Function("re_reg_name", z3.StringSort(), z3.StringSort())
        digits = z3.Function("re_reg_digits", z3.StringSort(), z3.StringSort())
        ios = z3.Function("int_of_str", z3.StringSort(), z3.IntSort())
        it.notes.add("re.match(REG_INDEX_PATTERN, tag) axiomatised: uninterpreted match predicate and groups; int(digits) >= 0 (checked against `re` by the bounded regex check)")
        if fr.pure:
            raise Unsupported("re.match in a specification")
        if it.branch(m(tag.term)):
            it.assume(ios(digits(tag.term)) >= 0)
            it.assume(z3.Length(name(tag.term)) >= 1)
            return VGen("rematch", groups=[SV(TStr, name(tag.term)), SV(TStr, digits(tag.term))])
        return NONE
