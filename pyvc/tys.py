"""Sorts and symbolic values of the pyvc encoding."""
from __future__ import annotations

import z3

Ref = z3.DeclareSort("Ref")
AnySort = z3.DeclareSort("PyAny")
_abs_sorts: dict[str, z3.SortRef] = {}
_dt_cache: dict[str, object] = {}


class Ty:
    name = "ty"

    def sort(self):
        raise NotImplementedError(self.name)

    def __repr__(self):
        return self.name

    def __eq__(self, o):
        return isinstance(o, Ty) and self.name == o.name and getattr(self, "default_list", False) == getattr(o, "default_list", False)

    def __hash__(self):
        return hash(self.name)


class _Simple(Ty):
    def __init__(self, name, sort):
        self.name = name
        self._sort = sort

    def sort(self):
        return self._sort


TInt = _Simple("int", z3.IntSort())
TBool = _Simple("bool", z3.BoolSort())
TStr = _Simple("str", z3.StringSort())
TAny = _Simple("any", AnySort)


class _TNone(Ty):
    name = "None"

    def sort(self):
        return z3.BoolSort()  # dummy (unit); never compared


TNone = _TNone()


class TAbs(Ty):
    def __init__(self, nm):
        self.name = f"abs:{nm}"
        self.nm = nm

    def sort(self):
        if self.nm not in _abs_sorts:
            _abs_sorts[self.nm] = z3.DeclareSort(self.nm)
        return _abs_sorts[self.nm]


class TObj(Ty):
    """Reference to an instance of a repo class (or subclass)."""

    def __init__(self, cls: str, exact: bool = False):
        self.cls = cls
        self.exact = exact
        self.name = f"obj:{cls}" + ("!" if exact else "")

    def sort(self):
        return Ref


class TEnum(Ty):
    def __init__(self, cls: str, members: list[str]):
        self.cls = cls
        self.members = members
        self.name = f"enum:{cls}"

    def sort(self):
        key = self.name
        if key not in _dt_cache:
            s, consts = z3.EnumSort(self.cls.replace(".", "_"), list(self.members))
            _dt_cache[key] = (s, dict(zip(self.members, consts)))
        return _dt_cache[key][0]

    def member(self, m):
        self.sort()
        return _dt_cache[self.name][1][m]


class TOpt(Ty):
    def __init__(self, inner: Ty):
        assert not isinstance(inner, TOpt)
        self.inner = inner
        self.name = f"opt[{inner.name}]"

    def sort(self):
        key = self.name
        if key not in _dt_cache:
            m = _mangle(self.inner.name)
            dt = z3.Datatype("Opt_" + m)
            dt.declare("none_" + m)
            dt.declare("some_" + m, ("oval_" + m, self.inner.sort()))
            _dt_cache[key] = dt.create()
        return _dt_cache[key]

    def none(self):
        return getattr(self.sort(), "none_" + _mangle(self.inner.name))

    def some(self, t):
        return getattr(self.sort(), "some_" + _mangle(self.inner.name))(t)

    def is_none(self, t):
        return getattr(self.sort(), "is_none_" + _mangle(self.inner.name))(t)

    def val(self, t):
        return getattr(self.sort(), "oval_" + _mangle(self.inner.name))(t)


class TSeq(Ty):
    def __init__(self, elem: Ty, bytes_: bool = False, tuple_: bool = False):
        self.elem = elem
        self.bytes_ = bytes_
        self.tuple_ = tuple_
        self.name = ("bytes" if bytes_ else ("tupseq" if tuple_ else "seq")) + f"[{elem.name}]"

    def sort(self):
        return z3.SeqSort(self.elem.sort())


class TTuple(Ty):
    def __init__(self, elems: list[Ty]):
        self.elems = list(elems)
        self.name = "tuple[" + ",".join(e.name for e in elems) + "]"

    def sort(self):
        key = self.name
        if key not in _dt_cache:
            m = _mangle(self.name)
            dt = z3.Datatype("Tup_" + m)
            dt.declare("mkt_" + m, *[(f"f{i}_{m}", e.sort()) for i, e in enumerate(self.elems)])
            _dt_cache[key] = dt.create()
        return _dt_cache[key]

    def mk(self, *ts):
        return getattr(self.sort(), "mkt_" + _mangle(self.name))(*ts)

    def get(self, t, i):
        return getattr(self.sort(), f"f{i}_{_mangle(self.name)}")(t)


class TDict(Ty):
    """Python dict as a value: (dom, val[, keys]).  `ordered` adds the insertion-order key list."""

    def __init__(self, k: Ty, v: Ty, ordered: bool = False, default_list: bool = False):
        self.k = k
        self.v = v
        self.ordered = ordered
        self.default_list = default_list  # collections.defaultdict(list): same encoding, missing keys read as []
        self.name = f"dict[{k.name},{v.name}]" + ("+ord" if ordered else "")

    def sort(self):
        key = self.name
        if key not in _dt_cache:
            m = _mangle(self.name)
            dt = z3.Datatype("Dict_" + m)
            fields = [("dom_" + m, z3.ArraySort(self.k.sort(), z3.BoolSort())), ("dval_" + m, z3.ArraySort(self.k.sort(), self.v.sort()))]
            if self.ordered:
                fields.append(("keys_" + m, z3.SeqSort(self.k.sort())))
            dt.declare("mkd_" + m, *fields)
            _dt_cache[key] = dt.create()
        return _dt_cache[key]

    def mk(self, dom, val, keys=None):
        c = getattr(self.sort(), "mkd_" + _mangle(self.name))
        if self.ordered:
            return c(dom, val, keys)
        return c(dom, val)

    def dom(self, t):
        return getattr(self.sort(), "dom_" + _mangle(self.name))(t)

    def val(self, t):
        return getattr(self.sort(), "dval_" + _mangle(self.name))(t)

    def keys(self, t):
        return getattr(self.sort(), "keys_" + _mangle(self.name))(t)


class TSet(Ty):
    def __init__(self, k: Ty):
        self.k = k
        self.name = f"set[{k.name}]"

    def sort(self):
        return z3.ArraySort(self.k.sort(), z3.BoolSort())


class TRec(Ty):
    """Value-semantics record for a frozen dataclass (non-recursive)."""

    def __init__(self, cls: str, fields: list[tuple[str, Ty]]):
        self.cls = cls
        self.fields = fields
        self.name = f"rec:{cls}"

    def sort(self):
        key = self.name
        if key not in _dt_cache:
            m = _mangle(self.cls.rsplit(".", 1)[-1])
            dt = z3.Datatype("Rec_" + _mangle(self.cls))
            dt.declare("mkr_" + m, *[(f"{m}_{_mangle(n)}", t.sort()) for n, t in self.fields])
            _dt_cache[key] = dt.create()
        return _dt_cache[key]

    def mk(self, *ts):
        c = getattr(self.sort(), "mkr_" + _mangle(self.cls.rsplit(".", 1)[-1]))
        return c(*ts) if self.fields else c

    def get(self, t, fname):
        return getattr(self.sort(), f"{_mangle(self.cls.rsplit('.', 1)[-1])}_{_mangle(fname)}")(t)

    def fty(self, fname):
        for n, t in self.fields:
            if n == fname:
                return t
        return None


class _TSlice(Ty):
    """Python slice objects (start, stop, step: optional ints); only as inputs / locals."""
    name = "slice"

    def sort(self):
        raise NotImplementedError("slices are not stored")


TSlice = _TSlice()


class TUnion(Ty):
    """Tagged union of single-sort alternatives."""

    def __init__(self, alts: list[Ty]):
        self.alts = list(alts)
        self.name = "union[" + "|".join(a.name for a in alts) + "]"

    def sort(self):
        key = self.name
        if key not in _dt_cache:
            m = _mangle(self.name)
            dt = z3.Datatype("U_" + m)
            for i, a in enumerate(self.alts):
                if a is TNone:
                    dt.declare(f"c{i}_{m}")
                else:
                    dt.declare(f"c{i}_{m}", (f"v{i}_{m}", a.sort()))
            _dt_cache[key] = dt.create()
        return _dt_cache[key]

    def index(self, a: Ty):
        for i, x in enumerate(self.alts):
            if x == a:
                return i
        return None

    def inject(self, i, t=None):
        m = _mangle(self.name)
        c = getattr(self.sort(), f"c{i}_{m}")
        return c if self.alts[i] is TNone else c(t)

    def is_alt(self, i, t):
        return getattr(self.sort(), f"is_c{i}_{_mangle(self.name)}")(t)

    def proj(self, i, t):
        return getattr(self.sort(), f"v{i}_{_mangle(self.name)}")(t)


def _mangle(s: str) -> str:
    out = []
    for ch in s:
        out.append(ch if ch.isalnum() else "_")
    return "".join(out)


# ---------------------------------------------------------------------------- values
class SV:
    """A symbolic value: a type and a z3 term of that type's sort."""

    __slots__ = ("ty", "term", "origin")

    def __init__(self, ty: Ty, term, origin=None):
        self.ty = ty
        self.term = term
        self.origin = origin  # optional lvalue path for aliasing of mutable containers

    def __repr__(self):
        return f"SV({self.ty.name}, {self.term})"


NONE = SV(TNone, None)


class PyTuple:
    """Python-level tuple of values (known arity)."""

    def __init__(self, items):
        self.items = list(items)

    def __repr__(self):
        return f"PyTuple({self.items})"


class PyList:
    """Python-level list literal of heterogeneous values with concrete length (used transiently)."""

    def __init__(self, items):
        self.items = list(items)


class VRange:
    def __init__(self, start, stop, step):
        self.start, self.stop, self.step = start, stop, step  # z3 Int terms


class VSlice:
    def __init__(self, start, stop, step):
        self.start, self.stop, self.step = start, stop, step  # SV (opt int) or NONE


class VClass:
    def __init__(self, ci):
        self.ci = ci


class VFunc:
    def __init__(self, fi, bound=None, cls_ctx=None):
        self.fi = fi
        self.bound = bound
        self.cls_ctx = cls_ctx


class VBuiltin:
    def __init__(self, name, bound=None):
        self.name = name
        self.bound = bound


class VModule:
    def __init__(self, name):
        self.name = name


class VExc:
    def __init__(self, cls: str, args=(), ci=None):
        self.cls = cls  # builtin name or qualified repo class
        self.args = list(args)
        self.ci = ci

    def __repr__(self):
        return f"VExc({self.cls})"


class VLambda:
    def __init__(self, node, frame):
        self.node = node
        self.frame = frame


class VGen:
    """Lazy generator over a source with an element expression (comprehension) - consumed once."""

    def __init__(self, kind, **kw):
        self.kind = kind
        self.__dict__.update(kw)
        self.consumed = False
