"""Specification builtins (forall, old, has, ...).  They receive the raw call AST."""
from __future__ import annotations

import ast

import z3

from .interp import seq_concat, Frame, Unsupported
from .tys import (NONE, SV, PyList, PyTuple, Ref, TAbs, TAny, TBool, TDict, TEnum, TInt, TNone, TObj, TOpt, TRec,
                  TSeq, TSet, TStr, TTuple, TUnion, Ty, VClass, VBuiltin)


class SpecBuiltins:
    def __init__(self, cdb):
        self.cdb = cdb

    def call(self, it, name, node: ast.Call, fr: Frame):
        h = getattr(self, "s_" + name, None)
        if h is None:
            raise Unsupported(f"spec builtin {name}")
        return h(it, node, fr)

    def _pure(self, fr: Frame) -> Frame:
        if fr.pure:
            return fr
        nfr = Frame(fr.module, fr.cls, fr.fi, pure=True)
        nfr.env = fr.env
        nfr.ghost = fr.ghost
        nfr.contract = fr.contract
        nfr.heap_override = fr.heap_override
        for a in ("old_heap", "old_env"):
            if hasattr(fr, a):
                setattr(nfr, a, getattr(fr, a))
        return nfr

    # ------------------------------------------------------------------ quantifiers
    def _quant(self, it, node, fr, universal: bool):
        fr = self._pure(fr)
        tnode, lam = node.args[0], node.args[1]
        tnodes = tnode.elts if isinstance(tnode, ast.Tuple) else [tnode]
        if not isinstance(lam, ast.Lambda):
            raise Unsupported("quantifier body must be a lambda")
        names = [a.arg for a in lam.args.args]
        if len(names) != len(tnodes):
            raise Unsupported("quantifier arity")
        nfr = Frame(fr.module, fr.cls, fr.fi, pure=True)
        nfr.env = dict(fr.env)
        nfr.ghost = fr.ghost
        nfr.contract = fr.contract
        nfr.heap_override = fr.heap_override
        for a in ("old_heap", "old_env"):
            if hasattr(fr, a):
                setattr(nfr, a, getattr(fr, a))
        consts = []
        guards = []
        for n, tn in zip(names, tnodes):
            ty = self.cdb.types.spec_ty(tn, fr.module)
            # deterministic names: two evaluations of the same specification text yield identical
            # quantified formulas (alpha-equivalent copies are hard for the solvers to match)
            c = z3.Const(f"q_{n}_L{getattr(lam, 'lineno', 0)}c{getattr(lam, 'col_offset', 0)}", ty.sort())
            consts.append(c)
            nfr.env[n] = SV(ty, c)
            if isinstance(ty, TObj):
                # quantification over references ranges over the instances of the class (no
                # aliveness guard: aliveness is state dependent and is not asserted under binders)
                subs = it.w.subclasses(ty.cls)
                guards.append(z3.Or([it.cls_of(c) == it.cls_id(s) for s in subs]))
        # wf facts about terms under the binder become guards of the quantifier body
        it.binder_stack.append([])
        try:
            body = it.truthy(it.eval(lam.body, nfr), nfr)
        finally:
            extra = it.binder_stack.pop()
        for f in extra:
            if any(_mentions(f, c) for c in consts):
                guards.append(f)
            else:
                it.assume(f)
        if guards:
            g = z3.And(guards)
            body = z3.Implies(g, body) if universal else z3.And(g, body)
        pats = self._patterns(node, nfr, it)
        if universal:
            return SV(TBool, z3.ForAll(consts, body, patterns=pats) if pats else z3.ForAll(consts, body))
        return SV(TBool, z3.Exists(consts, body))

    def _patterns(self, node, nfr, it):
        for kw in node.keywords:
            if kw.arg == "trigger":
                elts = kw.value.elts if isinstance(kw.value, (ast.List, ast.Tuple)) else [kw.value]
                terms = []
                for e in elts:
                    v = it.eval(e.body if isinstance(e, ast.Lambda) else e, nfr)
                    terms.append(v.term)
                return [z3.MultiPattern(*terms)] if len(terms) > 1 else terms
        return []

    def s_forall(self, it, node, fr):
        return self._quant(it, node, fr, True)

    def s_exists(self, it, node, fr):
        return self._quant(it, node, fr, False)

    # ------------------------------------------------------------------ logic
    def _args(self, it, node, fr):
        fr = self._pure(fr)
        return [it.eval(a, fr) for a in node.args], fr

    def s_implies(self, it, node, fr):
        (a, b), fr = self._args(it, node, fr)
        return SV(TBool, z3.Implies(it.truthy(a, fr), it.truthy(b, fr)))

    def s_iff(self, it, node, fr):
        (a, b), fr = self._args(it, node, fr)
        return SV(TBool, it.truthy(a, fr) == it.truthy(b, fr))

    def s_ite(self, it, node, fr):
        (c, a, b), fr = self._args(it, node, fr)
        return it.ite(it.truthy(c, fr), a, b)

    def s_eq(self, it, node, fr):
        """Encoding-level equality (identical terms), as opposed to Python ==."""
        (a, b), fr = self._args(it, node, fr)
        if isinstance(a, SV) and isinstance(b, SV):
            if a.ty == b.ty:
                return SV(TBool, a.term == b.term)
            if isinstance(a.ty, TOpt) or isinstance(b.ty, TOpt):
                t = a.ty if isinstance(a.ty, TOpt) else b.ty
                return SV(TBool, it.coerce(a, t).term == it.coerce(b, t).term)
            if isinstance(a.ty, TObj) and isinstance(b.ty, TObj):
                return SV(TBool, a.term == b.term)
        if isinstance(a, SV) and isinstance(a.ty, TUnion) and isinstance(b, SV) and not isinstance(b.ty, TUnion):
            return SV(TBool, a.term == it.coerce(b, a.ty).term)
        if isinstance(b, SV) and isinstance(b.ty, TUnion) and isinstance(a, SV) and not isinstance(a.ty, TUnion):
            return SV(TBool, b.term == it.coerce(a, b.ty).term)
        if isinstance(a, SV) and a.ty is TAny:
            return SV(TBool, a.term == it.coerce(b, TAny).term)
        if isinstance(b, SV) and b.ty is TAny:
            return SV(TBool, b.term == it.coerce(a, TAny).term)
        if isinstance(a, SV) and isinstance(a.ty, (TSeq, TTuple)):
            return SV(TBool, a.term == it.coerce(b, a.ty).term)
        if isinstance(b, SV) and isinstance(b.ty, (TSeq, TTuple)):
            return SV(TBool, b.term == it.coerce(a, b.ty).term)
        raise Unsupported(f"eq() between {a} and {b}")

    # ------------------------------------------------------------------ old state
    def s_old(self, it, node, fr):
        fr = self._pure(fr)
        oh = getattr(fr, "old_heap", None)
        if oh is None:
            oh = fr.ghost.get("__old_heap__") if fr.ghost else None
        if oh is None:
            raise Unsupported("old() outside a postcondition / invariant")
        nfr = Frame(fr.module, fr.cls, fr.fi, pure=True)
        oe = getattr(fr, "old_env", None)
        nfr.env = dict(fr.env)
        if oe:
            nfr.env.update({k: v for k, v in oe.items() if k in fr.env or True})
            # keep bound quantifier variables and locals that are not parameters
            for k, v in fr.env.items():
                if k not in oe:
                    nfr.env[k] = v
        nfr.ghost = fr.ghost
        nfr.contract = fr.contract
        nfr.heap_override = oh
        nfr.old_heap = oh
        nfr.old_env = oe
        return it.eval(node.args[0], nfr)

    # ------------------------------------------------------------------ dicts / sets / options
    def s_has(self, it, node, fr):
        (d, k), fr = self._args(it, node, fr)
        if isinstance(d.ty, TDict):
            return SV(TBool, z3.Select(d.ty.dom(d.term), it.key_of(k, d.ty.k)))
        if isinstance(d.ty, TSet):
            return SV(TBool, z3.Select(d.term, it.key_of(k, d.ty.k)))
        raise Unsupported("has() on non-dict")

    def s_get(self, it, node, fr):
        (d, k), fr = self._args(it, node, fr)
        return SV(d.ty.v, z3.Select(d.ty.val(d.term), it.key_of(k, d.ty.k)))

    def s_card(self, it, node, fr):
        (d,), fr = self._args(it, node, fr)
        if isinstance(d.ty, TDict):
            return SV(TInt, it.dict_len(d))
        if isinstance(d.ty, TSet):
            return SV(TInt, it.set_card(d))
        raise Unsupported("card()")

    def s_dom_eq(self, it, node, fr):
        (a, b), fr = self._args(it, node, fr)
        return SV(TBool, a.ty.dom(a.term) == b.ty.dom(b.term))

    def s_keys_of(self, it, node, fr):
        (d,), fr = self._args(it, node, fr)
        if not d.ty.ordered:
            raise Unsupported("keys_of on unordered dict")
        return SV(TSeq(d.ty.k), d.ty.keys(d.term))

    def s_isNone(self, it, node, fr):
        (a,), fr = self._args(it, node, fr)
        return SV(TBool, it.py_is(a, NONE, fr))

    def s_notNone(self, it, node, fr):
        (a,), fr = self._args(it, node, fr)
        return SV(TBool, z3.Not(it.py_is(a, NONE, fr)))

    s_is_some = s_notNone

    def s_the(self, it, node, fr):
        (a,), fr = self._args(it, node, fr)
        if isinstance(a.ty, TOpt):
            return SV(a.ty.inner, a.ty.val(a.term))
        return a

    def s_inj(self, it, node, fr):
        (d,), fr = self._args(it, node, fr)
        k1 = it.bound("ik1", d.ty.k.sort())
        k2 = it.bound("ik2", d.ty.k.sort())
        dom, val = d.ty.dom(d.term), d.ty.val(d.term)
        return SV(TBool, z3.ForAll([k1, k2], z3.Implies(z3.And(z3.Select(dom, k1), z3.Select(dom, k2), z3.Select(val, k1) == z3.Select(val, k2)), k1 == k2)))

    # ------------------------------------------------------------------ sequences
    def s_nth(self, it, node, fr):
        (s, i), fr = self._args(it, node, fr)
        s = it.seq_of(s)
        return SV(s.ty.elem, s.term[it.coerce(i, TInt).term])

    def s_concat(self, it, node, fr):
        args, fr = self._args(it, node, fr)
        first = None
        for a in args:
            if isinstance(a, SV) and isinstance(a.ty, TSeq):
                first = a
                break
        if first is None:
            first = it.seq_of(args[0])
        terms = [it.coerce(a, first.ty).term for a in args]
        return SV(first.ty, seq_concat(*terms) if len(terms) > 1 else terms[0])

    def s_sub(self, it, node, fr):
        (s, lo, n), fr = self._args(it, node, fr)
        s = it.seq_of(s)
        return SV(s.ty, z3.SubSeq(s.term, it.coerce(lo, TInt).term, it.coerce(n, TInt).term))

    def s_contains(self, it, node, fr):
        (s, x), fr = self._args(it, node, fr)
        s = it.seq_of(s)
        xt = it.coerce(x, s.ty.elem).term
        c = z3.Contains(s.term, z3.Unit(xt))
        # sequence lemma (List.mem_iff_get): x in s  <=>  exists j. 0 <= j < len s and s[j] == x.
        # The SMT sequence theories do not derive it on their own; it is supplied per use.
        j = it.bound("cj", z3.IntSort())
        it.notes.add("sequence lemma assumed per use of contains(): x in s <=> exists j. s[j] == x (List.mem_iff_get)")
        it.assume(c == z3.Exists([j], z3.And(j >= 0, j < z3.Length(s.term), s.term[j] == xt)))
        return SV(TBool, c)

    def s_empty_seq(self, it, node, fr):
        ty = self.cdb.types.spec_ty(node.args[0], fr.module)
        return it.mk_seq(TSeq(ty), [])

    def s_Seq(self, it, node, fr):
        ty = self.cdb.types.spec_ty(node.args[0], fr.module)
        fr = self._pure(fr)
        return it.mk_seq(TSeq(ty), [it.eval(a, fr) for a in node.args[1:]])

    # ------------------------------------------------------------------ objects
    def s_cls_is(self, it, node, fr):
        fr = self._pure(fr)
        v = it.eval(node.args[0], fr)
        prim = self._prim_ty(node.args[1])
        if prim is not None:
            if isinstance(v.ty, TUnion):
                for i, a in enumerate(v.ty.alts):
                    if a == prim:
                        return SV(TBool, v.ty.is_alt(i, v.term))
                return SV(TBool, z3.BoolVal(False))
            return SV(TBool, z3.BoolVal(v.ty == prim))
        c = it.eval(node.args[1], fr)
        if isinstance(v.ty, TOpt):
            return SV(TBool, z3.And(z3.Not(v.ty.is_none(v.term)), it.cls_of(v.ty.val(v.term)) == it.cls_id(c.ci.qname)))
        if isinstance(v.ty, TUnion):
            for i, a in enumerate(v.ty.alts):
                if isinstance(a, TRec) and a.cls == c.ci.qname:
                    return SV(TBool, v.ty.is_alt(i, v.term))
            for i, a in enumerate(v.ty.alts):
                if isinstance(a, TObj):
                    return SV(TBool, z3.And(v.ty.is_alt(i, v.term), it.cls_of(v.ty.proj(i, v.term)) == it.cls_id(c.ci.qname)))
            return SV(TBool, z3.BoolVal(False))
        if isinstance(v.ty, TRec):
            return SV(TBool, z3.BoolVal(v.ty.cls == c.ci.qname))
        if not isinstance(v.ty, TObj):
            return SV(TBool, z3.BoolVal(False))
        return SV(TBool, it.cls_of(v.term) == it.cls_id(c.ci.qname))

    def _prim_ty(self, n):
        if isinstance(n, ast.Name) and n.id in ("int", "bool", "str"):
            return {"int": TInt, "bool": TBool, "str": TStr}[n.id]
        return None

    def _narrow_union(self, it, v, t):
        """View a union value as the (sub-)union t: meaningful when v is in one of t's alternatives."""
        if v.ty == t:
            return v
        if not isinstance(v.ty, TUnion):
            return it.coerce(v, t)
        if not isinstance(t, TUnion):
            for i, a in enumerate(v.ty.alts):
                if a == t:
                    return SV(t, v.ty.proj(i, v.term))
            raise Unsupported(f"as_cls: {t} not an alternative of {v.ty}")
        res = None
        for i, a in reversed(list(enumerate(v.ty.alts))):
            if a in t.alts:
                inj = it.coerce(SV(a, v.ty.proj(i, v.term)), t).term
                res = inj if res is None else z3.If(v.ty.is_alt(i, v.term), inj, res)
        if res is None:
            raise Unsupported(f"as_cls: {t} shares no alternative with {v.ty}")
        return SV(t, res)

    def s_as_cls(self, it, node, fr):
        """View a reference as an instance of a class (meaningful under cls_is)."""
        fr = self._pure(fr)
        v = it.eval(node.args[0], fr)
        if isinstance(node.args[1], ast.Constant) and isinstance(node.args[1].value, str):
            # a (sub-)union given as a type string: re-inject the alternatives
            t = self.cdb.types.parse_ty(node.args[1].value, fr.module)
            return self._narrow_union(it, v, t)
        prim = self._prim_ty(node.args[1])
        if prim is not None:
            if isinstance(v.ty, TUnion):
                for i, a in enumerate(v.ty.alts):
                    if a == prim:
                        return SV(prim, v.ty.proj(i, v.term))
            if v.ty == prim:
                return v
            raise Unsupported(f"as_cls to {prim} of {v.ty}")
        c = it.eval(node.args[1], fr)
        if isinstance(v.ty, TOpt):
            v = SV(v.ty.inner, v.ty.val(v.term))
        if isinstance(v.ty, TUnion):
            for i, a in enumerate(v.ty.alts):
                if isinstance(a, TRec) and a.cls == c.ci.qname:
                    return SV(a, v.ty.proj(i, v.term))
            for i, a in enumerate(v.ty.alts):
                if isinstance(a, TObj):
                    v = SV(a, v.ty.proj(i, v.term))
                    break
        if isinstance(v.ty, TRec):
            if v.ty.cls == c.ci.qname:
                return v
            # a record of another class: the cast is only meaningful under a (false) cls_is guard
            t = self.cdb.types.class_ty(c.ci.qname)
            return SV(t, z3.Const("cast_dummy_" + c.ci.name, t.sort()))
        if isinstance(v.ty, TUnion):
            t = self.cdb.types.class_ty(c.ci.qname)
            if isinstance(t, TRec):
                return SV(t, z3.Const("cast_dummy_" + c.ci.name, t.sort()))
        return SV(TObj(c.ci.qname, exact=True), v.term)

    def s_same_obj(self, it, node, fr):
        (a, b), fr = self._args(it, node, fr)
        if isinstance(a.ty, TOpt) and not isinstance(b.ty, TOpt):
            return SV(TBool, z3.And(z3.Not(a.ty.is_none(a.term)), a.ty.val(a.term) == b.term))
        if isinstance(b.ty, TOpt) and not isinstance(a.ty, TOpt):
            return SV(TBool, z3.And(z3.Not(b.ty.is_none(b.term)), b.ty.val(b.term) == a.term))
        return SV(TBool, a.term == b.term)

    def s_allocated(self, it, node, fr):
        """x is an allocated object in the state the enclosing formula is evaluated in."""
        (a,), fr = self._args(it, node, fr)
        alive = it.alive
        if fr.heap_override is not None and ("__alive__", "") in fr.heap_override:
            alive = fr.heap_override[("__alive__", "")]
        t = a.term if not isinstance(a.ty, TOpt) else a.ty.val(a.term)
        return SV(TBool, z3.Select(alive, t))

    def s_fresh_in(self, it, node, fr):
        """fresh_in(x): x was not allocated in the pre-state."""
        (a,), fr = self._args(it, node, fr)
        return SV(TBool, z3.Not(z3.Select(it.alive_pre, a.term)))

    def s_ghost(self, it, node, fr):
        """ghost("name", "RetTy", args...): application of an uninterpreted function."""
        fr = self._pure(fr)
        name = ast.literal_eval(node.args[0])
        rty = self.cdb.types.spec_ty(node.args[1], fr.module)
        args = [it.eval(a, fr) for a in node.args[2:]]
        terms = []
        for a in args:
            if isinstance(a, (PyTuple, PyList)):
                a = it.coerce(a, it.val_ty(a))
            terms.append(a.term)
        f = z3.Function(name, *[t.sort() for t in terms], rty.sort())
        return SV(rty, f(*terms))

    def s_view_of(self, it, node, fr):
        """The dict behind a keys()/items()/iter() result."""
        (g,), fr = self._args(it, node, fr)
        from .tys import VGen
        if isinstance(g, VGen) and g.kind in ("dictkeys", "dictitems", "dictvalues"):
            return g.d
        raise Unsupported(f"view_of({g})")

    def s_kind_of(self, it, node, fr):
        (g,), fr = self._args(it, node, fr)
        from .tys import VGen
        return SV(TStr, z3.StringVal(g.kind if isinstance(g, VGen) else "value"))

    def s_elems(self, it, node, fr):
        """The sequence a generator / iterable result would yield."""
        (g,), fr = self._args(it, node, fr)
        from .tys import VGen
        if isinstance(g, VGen) and g.kind == "genexp":
            return it.cdb.builtins.list_comp(it, g.node, g.frame, spec_mode=True)
        return it.iter_to_seq(g, fr)

    def s_as_list(self, it, node, fr):
        """The list payload of a union value (meaningful where isinstance(v, list) holds)."""
        (v,), fr = self._args(it, node, fr)
        if isinstance(v, SV) and isinstance(v.ty, TUnion):
            for i, a in enumerate(v.ty.alts):
                if isinstance(a, TSeq):
                    return SV(a, v.ty.proj(i, v.term))
            raise Unsupported("as_list: union without a list alternative")
        return it.seq_of(v)

    def s_any_as(self, it, node, fr):
        """View an `Any`-typed value as a value of the given type: the inverse of the injection the
        encoding uses when such a value is stored into an Any field (proj(inj(x)) == x)."""
        fr = self._pure(fr)
        v = it.eval(node.args[0], fr)
        ty = self.cdb.types.spec_ty(node.args[1], fr.module)
        if v.ty is not TAny:
            return it.coerce(v, ty)
        inj_name = "any_of_" + ty.name.replace("[", "_").replace("]", "_").replace(":", "_").replace(",", "_").replace(".", "_").replace("|", "_").replace("!", "_").replace("+", "_")
        inj = z3.Function(inj_name, ty.sort(), TAny.sort())
        proj = z3.Function("proj_" + inj_name, TAny.sort(), ty.sort())
        x = it.bound("ax", ty.sort())
        it.assume(z3.ForAll([x], proj(inj(x)) == x))
        return SV(ty, proj(v.term))

    def s_assume(self, it, node, fr):
        """assume(cond): hypothesis of a code lemma (e.g. the induction hypothesis for constituents)."""
        pfr = self._pure(fr)
        for a in node.args:
            it.assume(it.truthy(it.eval(a, pfr), pfr))
        it.notes.add("code lemma hypothesis assumed (assume(...))")
        return NONE

    def s_result(self, it, node, fr):
        raise Unsupported("result is a name, not a call")


def _mentions(f, c) -> bool:
    seen = set()
    stack = [f]
    cid = c.get_id()
    while stack:
        x = stack.pop()
        i = x.get_id()
        if i in seen:
            continue
        seen.add(i)
        if i == cid:
            return True
        if z3.is_app(x):
            stack.extend(x.children())
        elif z3.is_quantifier(x):
            stack.append(x.body())
    return False
