"""The "plain sequential model of a hierarchical port multigraph" of C04 (oracle, written from
the statement).  Nodes are identified by index; a link is a pair (source out-port, target
in-port); per port the linked ports are kept in the order the links were added (the statement
only fixes the multiset - comparisons use multisets).
"""
from collections import Counter


class Model:
    def __init__(self, root_op="root"):
        self.nodes = {0: {"op": root_op, "parent": None, "children": [], "req_out": 0, "meta": {}}}
        self.links = []          # list of ((src_idx, src_off), (dst_idx, dst_off)), insertion order
        self.free = []           # indices available for reuse (LIFO is an implementation choice: not compared)
        self.next = 1

    # ---- mutators --------------------------------------------------------------------------
    def add_node(self, idx, op, parent, num_outs=None, meta=None):
        assert idx not in self.nodes
        self.nodes[idx] = {"op": op, "parent": parent, "children": [], "req_out": num_outs or 0, "meta": meta or {}}
        self.nodes[parent]["children"].append(idx)

    def add_link(self, s, d):
        self.links.append((s, d))

    def add_order_link(self, a, b):
        if ((a, -1), (b, -1)) not in self.links:
            self.links.append(((a, -1), (b, -1)))

    def delete_link(self, s, d):
        if (s, d) in self.links:
            self.links.remove((s, d))   # exactly one occurrence

    def delete_node(self, n):
        p = self.nodes[n]["parent"]
        self.nodes[p]["children"].remove(n)
        self.links = [(s, d) for (s, d) in self.links if s[0] != n and d[0] != n]
        return self.nodes.pop(n)

    # ---- queries ---------------------------------------------------------------------------
    def linked(self, port, direction):
        if direction == "out":
            return [d for (s, d) in self.links if s == port]
        return [s for (s, d) in self.links if d == port]

    def n_out(self, n):
        used = [s[1] + 1 for (s, d) in self.links if s[0] == n and s[1] >= 0]
        return max([self.nodes[n]["req_out"]] + used)

    def n_in(self, n):
        used = [d[1] + 1 for (s, d) in self.links if d[0] == n and d[1] >= 0]
        return max([0] + used)


def multiset(xs):
    return Counter(xs)
