"""One-place mutations of a JSON document, shared by the decoder side (ground/c17_decoder.py, /venv python)
and the schema side (checks/c17.py, tooling python): pure stdlib."""
import copy


def objects(doc, path=()):
    """paths of all JSON objects in doc (a path is a tuple of keys / indices)"""
    if isinstance(doc, dict):
        yield path
        for k, v in doc.items():
            yield from objects(v, path + (k,))
    elif isinstance(doc, list):
        for i, v in enumerate(doc):
            yield from objects(v, path + (i,))


def leaves(doc, path=()):
    if isinstance(doc, dict):
        for k, v in doc.items():
            yield from leaves(v, path + (k,))
    elif isinstance(doc, list):
        for i, v in enumerate(doc):
            yield from leaves(v, path + (i,))
    else:
        yield path, doc


def get(doc, path):
    for k in path:
        doc = doc[k]
    return doc


def mutations(doc, with_types):
    """list of mutation descriptors (kind, path, key-or-None)"""
    out = []
    for p in objects(doc):
        out.append(("extra", list(p), None))
        for k in get(doc, p):
            out.append(("drop", list(p), k))
    if with_types:
        for p, v in leaves(doc):
            if isinstance(v, bool):
                out.append(("bool_as_int", list(p), None))
            elif isinstance(v, int):
                out.append(("int_as_str", list(p), None))
            elif isinstance(v, str):
                out.append(("str_as_int", list(p), None))
    return out


def apply(doc, m):
    kind, path, key = m
    d = copy.deepcopy(doc)
    if kind == "extra":
        get(d, path)["verif_extra_key"] = 1
    elif kind == "drop":
        del get(d, path)[key]
    else:
        parent = get(d, path[:-1])
        v = parent[path[-1]]
        parent[path[-1]] = {"bool_as_int": lambda: int(v), "int_as_str": lambda: str(v), "str_as_int": lambda: 7}[kind]()
    return d
