"""Executable transcription of the C19 statement (the oracle; written from the statement and the
module docstring of hugr/qsystem/result.py, not from the code).

A shot is a list of (tag, value) entries, replayed in order as writes to a register file:
  tag `name[n]`  (documented pattern ^([a-z][\\w_]*)\\[(\\d+)\\]$): write one bit at position n of register
                 `name`, growing it with '0' as needed;
  any other tag: overwrite the whole register `tag` with the bit / list of bits given;
  later writes override earlier ones; every character is '0' or '1'; a value that is not a bit is
  rejected with ValueError.
"""
import re

PATTERN = r"^([a-z][\w_]*)\[(\d+)\]$"


def bit(x):
    # bools are ints in Python: True/False are the bits 1/0 and are rendered as the characters 1/0
    if isinstance(x, int) and x in (0, 1):
        return "1" if x == 1 else "0"
    raise ValueError(f"not a bit: {x!r}")


def parse(tag):
    m = re.match(PATTERN, tag)
    if m is None:
        return None
    return m.group(1), int(m.group(2))


def write(regs: dict, tag, value):
    p = parse(tag)
    if p is not None:
        name, n = p
        cur = list(regs.get(name, []))
        if n >= len(cur):
            cur += ["0"] * (n - len(cur) + 1)
        cur[n] = bit(value)
        regs[name] = cur
    elif isinstance(value, list):
        regs[tag] = [bit(v) for v in value]
    else:
        regs[tag] = [bit(value)]
    return regs


def register_bits(entries):
    regs: dict = {}
    for tag, value in entries:
        write(regs, tag, value)
    return {r: "".join(b) for r, b in regs.items()}


def register_bitstrings(shots, strict_names=False, strict_lengths=False):
    per_shot = [register_bits(s) for s in shots]
    if strict_names:
        for a in per_shot:
            if a.keys() != per_shot[0].keys():
                raise ValueError("differing register sets")
    out: dict = {}
    for d in per_shot:
        for reg, s in d.items():
            if strict_lengths and reg in out and len(out[reg][0]) != len(s):
                raise ValueError("differing lengths")
            out.setdefault(reg, []).append(s)
    return out


def flatten(v):
    if isinstance(v, list):
        for x in v:
            yield from flatten(x)
    else:
        yield v


def collate(entries):
    tags: dict = {}
    for tag, value in entries:
        tags.setdefault(tag, []).append(value)
    return tags


def collated_counts(shots):
    from collections import Counter
    return Counter(tuple((tag, "".join(bit(p) for p in flatten(vals))) for tag, vals in collate(s).items()) for s in shots)
