"""Validity rules of the HUGR specification named by property C01, transcribed from the statement
(and from the reference rules it cites: hugr-core validate.rs / ops/validate.rs) as an executable
oracle over a hugr.Hugr object.  Returns a list of (rule, message); empty = valid under these rules.

Rules
  R1 permitted parent/child operation pairs
  R2 Input/Output (entry/exit, Case) children in the mandated positions with rows equal to the container's signature
  R3 links attach only to ports the operation has (port counts equal to the signature)
  R4 identical kind and type at both ends of every edge
  R5 (domain of the property, checked to keep the generators honest) every value input wired exactly once,
     every non-copyable value output consumed exactly once
  R6 dataflow regions are acyclic
  R7 a state-order edge accompanies every value edge that enters a nested region
  R8 dominance for value edges between basic blocks
  R9 no value edge into a function body
  R10 sum / tuple constants inhabit their declared type
"""
from collections import defaultdict


def _ops():
    import hugr.ops as O
    return O


def value_ports(op):
    """(value inputs, static inputs, value outputs, static outputs) or None for ops without dataflow/static ports"""
    O = _ops()
    if isinstance(op, O.Call):
        return len(op.instantiation.input), 1, len(op.instantiation.output), 0
    if isinstance(op, (O.LoadConst, O.LoadFunc)):
        return 0, 1, 1, 0
    if isinstance(op, O.DataflowOp):
        s = op.outer_signature()
        return len(s.input), 0, len(s.output), 0
    if isinstance(op, (O.Const, O.FuncDefn, O.FuncDecl)):
        return 0, 0, 0, 1
    if isinstance(op, O.DataflowBlock):
        return 1, 0, len(op.sum_ty.variant_rows), 0      # control ports
    if isinstance(op, O.ExitBlock):
        return 1, 0, 0, 0
    return 0, 0, 0, 0


def is_dataflow_parent(op):
    O = _ops()
    return isinstance(op, (O.DFG, O.Case, O.FuncDefn, O.TailLoop, O.DataflowBlock))


def inner_rows(op):
    """(input row, output row) the children Input / Output must carry"""
    import hugr.tys as T
    O = _ops()
    if isinstance(op, O.DFG):
        s = op.inner_signature()
        return list(s.input), list(s.output)
    if isinstance(op, O.FuncDefn):
        return list(op.inputs), list(op.outputs)
    if isinstance(op, O.Case):
        return list(op.inputs), list(op.outputs)
    if isinstance(op, O.TailLoop):
        return list(op.just_inputs) + list(op.rest), [T.Sum([list(op.just_inputs), list(op.just_outputs)])] + list(op.rest)
    if isinstance(op, O.DataflowBlock):
        return list(op.inputs), [op.sum_ty] + list(op.other_outputs)
    raise AssertionError(op)


def _norm(d):
    """normal form of an encoded type: a unit sum is the general sum of that many empty rows"""
    if isinstance(d, dict):
        if d.get("t") == "Sum" and d.get("s") == "Unit":
            return {"t": "Sum", "s": "General", "rows": [[] for _ in range(d["size"])]}
        return {k: _norm(v) for k, v in d.items()}
    if isinstance(d, list):
        return [_norm(x) for x in d]
    return d


def same_type(a, b):
    """types compared by their encoded form (sugar, unit and general sums of the same rows are the same type)"""
    import json
    return _norm(json.loads(a._to_serial_root().model_dump_json())) == _norm(json.loads(b._to_serial_root().model_dump_json()))


def same_row(a, b):
    return len(a) == len(b) and all(same_type(x, y) for x, y in zip(a, b))


def kinds_equal(k1, k2):
    import hugr.tys as T
    if type(k1) is not type(k2):
        return False
    if isinstance(k1, (T.ValueKind, T.ConstKind)):
        return same_type(k1.ty, k2.ty)
    if isinstance(k1, T.FunctionKind):
        import json
        return _norm(json.loads(k1.ty._to_serial().model_dump_json())) == _norm(json.loads(k2.ty._to_serial().model_dump_json()))
    return True


def inhabits(v, t):
    import hugr.tys as T
    import hugr.val as V
    if isinstance(v, V.Sum):
        if not isinstance(t, T.Sum):
            return False
        rows = t.variant_rows
        return 0 <= v.tag < len(rows) and len(v.vals) == len(rows[v.tag]) and all(inhabits(x, rt) for x, rt in zip(v.vals, rows[v.tag]))
    return same_type(v.type_(), t)


def validate(h):
    import hugr.tys as T
    from hugr.hugr.node_port import InPort, OutPort
    O = _ops()
    errs = []

    def err(rule, msg):
        errs.append((rule, msg))
    nodes = [n for n in h]
    parent = {n: h[n].parent for n in nodes}
    # ---- R1 / R2 -----------------------------------------------------------------------------
    for n in nodes:
        op = h[n].op
        kids = list(h[n].children)
        kops = [h[c].op for c in kids]
        if isinstance(op, O.Module):
            for c, k in zip(kids, kops):
                if not isinstance(k, (O.FuncDefn, O.FuncDecl, O.AliasDecl, O.AliasDefn, O.Const)):
                    err("R1", f"{k.name()} (node {c.idx}) is not permitted as a child of Module")
        elif is_dataflow_parent(op):
            if len(kops) < 2 or not isinstance(kops[0], O.Input) or not isinstance(kops[1], O.Output):
                err("R2", f"{op.name()} (node {n.idx}): the first two children must be Input and Output")
            else:
                try:
                    rin, rout = inner_rows(op)
                    if not same_row(kops[0].types, rin):
                        err("R2", f"{op.name()} (node {n.idx}): Input row {kops[0].types} != {rin}")
                    if not same_row(kops[1].types, rout):
                        err("R2", f"{op.name()} (node {n.idx}): Output row {kops[1].types} != {rout}")
                except O.IncompleteOp as e:
                    err("R2", f"{op.name()} (node {n.idx}): incomplete ({e})")
            for c, k in list(zip(kids, kops))[2:]:
                if isinstance(k, (O.Input, O.Output)):
                    err("R2", f"{op.name()} (node {n.idx}): extra {k.name()} child at node {c.idx}")
                elif not isinstance(k, (O.DataflowOp, O.Call, O.Const, O.FuncDefn, O.FuncDecl, O.AliasDefn, O.AliasDecl)) or isinstance(k, (O.Case, O.DataflowBlock, O.ExitBlock, O.Module)):
                    err("R1", f"{k.name()} (node {c.idx}) is not permitted inside the dataflow region of {op.name()}")
        elif isinstance(op, O.CFG):
            if len(kops) < 2 or not isinstance(kops[0], O.DataflowBlock) or not isinstance(kops[1], O.ExitBlock):
                err("R2", f"CFG (node {n.idx}): the first child must be the entry block and the second the exit block")
            else:
                if not same_row(kops[0].inputs, op.inputs):
                    err("R2", f"CFG (node {n.idx}): entry block inputs {kops[0].inputs} != CFG inputs {op.inputs}")
                if not same_row(kops[1].cfg_outputs, op.outputs):
                    err("R2", f"CFG (node {n.idx}): exit block row != CFG outputs")
            for c, k in list(zip(kids, kops))[2:]:
                if not isinstance(k, O.DataflowBlock):
                    err("R1", f"{k.name()} (node {c.idx}) is not permitted as a child of CFG")
        elif isinstance(op, O.Conditional):
            if any(not isinstance(k, O.Case) for k in kops):
                err("R1", f"Conditional (node {n.idx}) has a child that is not a Case")
            elif len(kops) != len(op.sum_ty.variant_rows):
                err("R2", f"Conditional (node {n.idx}): {len(kops)} cases for {len(op.sum_ty.variant_rows)} variants")
            else:
                for i, k in enumerate(kops):
                    if not same_row(k.inputs, list(op.sum_ty.variant_rows[i]) + list(op.other_inputs)):
                        err("R2", f"Conditional (node {n.idx}): case {i} inputs {k.inputs} != variant + other inputs")
                    if not same_row(k.outputs, op.outputs):
                        err("R2", f"Conditional (node {n.idx}): case {i} outputs differ from the conditional's")
        elif kids:
            err("R1", f"{op.name()} (node {n.idx}) must not have children")
    # ---- R3 / R4 -----------------------------------------------------------------------------
    in_count = defaultdict(int)
    out_count = defaultdict(int)
    links = list(h.links())
    for s, t in links:
        sp, tp = value_ports(h[s.node].op), value_ports(h[t.node].op)
        if s.offset == -1 or t.offset == -1:
            if s.offset != t.offset:
                err("R4", f"order port linked to a value port: {s} -> {t}")
            elif not (isinstance(h[s.node].op, (O.DataflowOp, O.Call)) and isinstance(h[t.node].op, (O.DataflowOp, O.Call))):
                err("R3", f"order edge at an operation without an order port: {s} -> {t}")
            continue
        if not (0 <= s.offset < sp[2] + sp[3]):
            err("R3", f"link from {s}: {h[s.node].op.name()} has {sp[2] + sp[3]} output ports")
            continue
        if not (0 <= t.offset < tp[0] + tp[1]):
            err("R3", f"link into {t}: {h[t.node].op.name()} has {tp[0] + tp[1]} input ports")
            continue
        try:
            k1, k2 = h.port_kind(s), h.port_kind(t)
        except Exception as e:  # noqa: BLE001
            err("R4", f"port kind of {s} / {t}: {type(e).__name__}")
            continue
        if not kinds_equal(k1, k2):
            err("R4", f"edge {s} -> {t}: {k1} at the source, {k2} at the target")
        in_count[t] += 1
        out_count[s] += 1
    # ---- R3 (store counters): a node never claims more ports than its operation has ------------------
    for n in nodes:
        op = h[n].op
        vp = value_ports(op)
        try:
            if h.num_in_ports(n) > vp[0] + vp[1]:
                err("R3", f"{op.name()} (node {n.idx}) claims {h.num_in_ports(n)} input ports, its signature has {vp[0] + vp[1]}")
            if h.num_out_ports(n) > vp[2] + vp[3]:
                err("R3", f"{op.name()} (node {n.idx}) claims {h.num_out_ports(n)} output ports, its signature has {vp[2] + vp[3]}")
        except Exception:  # noqa: BLE001
            pass
    # ---- R5 (domain) -------------------------------------------------------------------------
    for n in nodes:
        op = h[n].op
        vp = value_ports(op)
        if isinstance(op, (O.DataflowBlock, O.ExitBlock)) or n == h.root:
            continue          # control ports; the root's own ports belong to the context the HUGR is used in
        for i in range(vp[0] + vp[1]):
            c = in_count[InPort(n, i)]
            if c != 1:
                err("R5", f"{op.name()} (node {n.idx}): input port {i} has {c} links")
        if isinstance(op, (O.DataflowOp, O.Call)):
            for i in range(vp[2]):
                try:
                    k = h.port_kind(OutPort(n, i))
                except Exception:  # noqa: BLE001
                    continue
                if isinstance(k, T.ValueKind) and k.ty.type_bound() != T.TypeBound.Copyable and out_count[OutPort(n, i)] != 1:
                    err("R5", f"{op.name()} (node {n.idx}): linear output {i} used {out_count[OutPort(n, i)]} times")
    # ---- R6..R9: geometry of value and order edges ------------------------------------------------
    def ancestors(n):
        out = []
        while n is not None:
            out.append(n)
            n = parent[n]
        return out

    sib = defaultdict(lambda: defaultdict(set))       # region parent -> node -> successors (siblings)
    order = {(s.node, t.node) for s, t in links if s.offset == -1}
    for s, t in links:
        ps, pt = parent[s.node], parent[t.node]
        if s.offset == -1:
            if ps != pt:
                err("R7", f"order edge {s.node.idx} -> {t.node.idx} between nodes that are not siblings")
            else:
                sib[ps][s.node].add(t.node)
            continue
        try:
            kind = h.port_kind(s)
        except Exception:  # noqa: BLE001
            continue
        if isinstance(kind, T.CFKind):
            continue
        if isinstance(kind, (T.ConstKind, T.FunctionKind)):
            # static edges: the source's parent must be an ancestor of the target
            if ps not in ancestors(t.node):
                err("R7", f"static edge {s} -> {t}: the definition is not visible from the use")
            continue
        if ps == pt:
            sib[ps][s.node].add(t.node)
            continue
        anc = ancestors(t.node)
        if ps in anc:
            # Ext edge: enters the nested region(s) below the sibling `a` of the source
            a = anc[anc.index(ps) - 1]
            for x in anc[:anc.index(ps)]:
                if isinstance(h[x].op, O.FuncDefn):
                    err("R9", f"value edge {s} -> {t} enters the body of function node {x.idx}")
            if not isinstance(kind.ty.type_bound(), type(T.TypeBound.Copyable)) or kind.ty.type_bound() != T.TypeBound.Copyable:
                err("R7", f"non-local edge {s} -> {t} carries a non-copyable value")
            if (s.node, a) not in order:
                err("R7", f"value edge {s} -> {t} enters the region of node {a.idx} without a state-order edge {s.node.idx} -> {a.idx}")
            sib[ps][s.node].add(a)
            continue
        # Dom edge: source in a basic block that must dominate the block containing the target
        bs = ps if ps is not None and isinstance(h[ps].op, O.DataflowBlock) else None
        bt = next((x for x in anc if isinstance(h[x].op, O.DataflowBlock) and bs is not None and parent[x] == parent[bs]), None)
        if bs is None or bt is None:
            err("R7", f"value edge {s} -> {t}: the source has no ancestor-sibling relation to the target")
            continue
        cfg = parent[bs]
        blocks = list(h[cfg].children)
        succ = {b: [p.node for i in range(h.num_out_ports(b)) for p in h.linked_ports(OutPort(b, i))] for b in blocks}
        entry = blocks[0]

        def reachable(avoid):
            seen, todo = set(), [entry] if entry != avoid else []
            while todo:
                x = todo.pop()
                if x in seen:
                    continue
                seen.add(x)
                todo += [y for y in succ.get(x, []) if y != avoid]
            return seen
        if bt in reachable(bs) and bt != bs:
            err("R8", f"value edge {s} -> {t}: block {bs.idx} does not dominate block {bt.idx}")
        if kind.ty.type_bound() != T.TypeBound.Copyable:
            err("R8", f"dominator edge {s} -> {t} carries a non-copyable value")
    for reg, g in sib.items():
        if reg is not None and isinstance(h[reg].op, O.CFG):
            continue
        state = {}

        def dfs(x):
            state[x] = 1
            for y in g.get(x, ()):
                if state.get(y) == 1:
                    return True
                if y not in state and dfs(y):
                    return True
            state[x] = 2
            return False
        for x in list(g):
            if x not in state and dfs(x):
                err("R6", f"dataflow region of node {reg.idx if reg is not None else None} has a cycle through node {x.idx}")
                break
    # ---- R10 ------------------------------------------------------------------------------------
    for n in nodes:
        op = h[n].op
        if isinstance(op, O.Const):
            import hugr.val as V
            if isinstance(op.val, V.Sum) and not inhabits(op.val, op.val.type_()):
                err("R10", f"constant {op.val!r} (node {n.idx}) does not inhabit its type")
            if isinstance(op.val, V.Function):
                for r, m in validate(op.val.body):
                    err(r, f"in function constant of node {n.idx}: {m}")
    return errs


def hugr_from_doc(doc):
    """Independent reader of a serialized HUGR document (a JSON value), following the reference reader
    (hugr-core serialize.rs): nodes in list order, node 0 the root, children appended to their parent
    in list order; an edge whose offsets are null, or whose offsets are the first port after the
    operation's value (+ static) ports on both sides, is a state-order edge; any other offset must
    name a port the operation has.  Operations are decoded with the library's codec (property C05)."""
    import json
    from hugr._serialization.ops import OpType
    from hugr.hugr import Hugr
    from hugr.hugr.node_port import Node
    O = _ops()
    nodes = doc["nodes"]
    ops = []
    for nd in nodes:
        m = OpType.model_validate_json(json.dumps(dict(nd, parent=0)))
        ops.append(m.root.deserialize())
    if nodes[0]["parent"] != 0:
        raise ValueError("node 0 is not the root")
    h = Hugr(ops[0])
    handles = [h.root]
    for i in range(1, len(nodes)):
        p = nodes[i]["parent"]
        if not (0 <= p < i):
            raise ValueError(f"node {i}: parent {p} not listed earlier")
        handles.append(h.add_node(ops[i], handles[p]))
    meta = doc.get("metadata") or []
    for i, m in enumerate(meta):
        if m:
            h[handles[i]].metadata.update(m)
    problems = []
    for (s, so), (t, to) in doc["edges"]:
        sp, tp = value_ports(ops[s]), value_ports(ops[t])
        dataflow_s = isinstance(ops[s], (O.DataflowOp, O.Call))
        dataflow_t = isinstance(ops[t], (O.DataflowOp, O.Call))
        if so is None or to is None:
            h.add_order_link(handles[s], handles[t])
            continue
        s_order = sp[2] if dataflow_s else None
        t_order = tp[0] + tp[1] if dataflow_t else None
        if so == s_order and to == t_order:
            h.add_order_link(handles[s], handles[t])
            continue
        if not (0 <= so < sp[2] + sp[3]):
            problems.append(("R3", f"document edge ({s},{so}) -> ({t},{to}): {ops[s].name()} has no output port {so}"))
            continue
        if not (0 <= to < tp[0] + tp[1]):
            problems.append(("R3", f"document edge ({s},{so}) -> ({t},{to}): {ops[t].name()} has no input port {to}"))
            continue
        h.add_link(handles[s].out(so), handles[t].inp(to))
    return h, problems
